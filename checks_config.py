# Per-property configuration of the driver (./check): which test functions form the check,
# how many cases per tier, the evidence level and the stated non-triviality rule.

COMMON_ASSUMPTIONS = [
    "the API server is a model: client-go's fake object tracker plus the semantics listed in DESIGN.md section 2.3",
    "informer caches are hand-driven (no background goroutines); cache list order is a generated input",
    "events written by the controller's event broadcaster are accepted and ignored",
]

CHECKS = {
    "C01": {
        "level": "exploration",
        "rule": "case = (replicas r in 0..12, delete-slots annotation drawn from a grammar: absent / well-formed int lists "
                "with whitespace, duplicates, negatives, int32 extremes / malformed strings / random bytes, optional controller run); "
                "oracle = greedy reference model of the desired ordinals compared with every helper and with the pod "
                "creations of the real controller on an empty cluster; non-trivial = a slot lies at or below the highest "
                "desired ordinal (it displaces an ordinal) or the annotation is negative / extreme / malformed; "
                "distinct = distinct (r, parsed slot set, annotation class, controller mode)",
        "legs": [
            {"test": "TestC01", "quick": {"checks": 20000}, "thorough": {"checks": 1600000, "shards": 16}},
            {"test": "TestC01Exhaustive", "kind": "plain", "thorough": True},
        ],
        "floors": {"slot-displaces-ordinal": 0.10, "negative/extreme/malformed": 0.05},
        "exhaustive_key": "exhaustive_cases",
        "assumptions": ["pure helper functions; controller part runs on the simulated cluster"] + COMMON_ASSUMPTIONS,
    },
}
