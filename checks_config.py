# Per-property configuration of the driver (./check): which test functions form the check,
# how many cases per tier, the evidence level and the stated non-triviality rule.

COMMON_ASSUMPTIONS = [
    "the API server is a model: client-go's fake object tracker plus the semantics listed in DESIGN.md section 2.3",
    "informer caches are hand-driven (no background goroutines); cache list order is a generated input",
    "events written by the controller's event broadcaster are accepted and ignored",
]

CHECKS = {
    "C01": {
        "level": "exploration",
        "rule": "case = (replicas r in 0..12, delete-slots annotation drawn from a grammar: absent / well-formed int lists "
                "with whitespace, duplicates, negatives, int32 extremes / malformed strings / lists with exactly one bad element / random bytes, optional controller run); "
                "oracle = the harness' own strict reading of the value (a list of int32 literals, otherwise no slots; lists with null elements unjudged) and a "
                "greedy reference model of the desired ordinals compared with every helper and with the pod "
                "creations of the real controller on an empty cluster; non-trivial = a slot lies at or below the highest "
                "desired ordinal (it displaces an ordinal) or the annotation is negative / extreme / malformed; "
                "distinct = distinct (r, parsed slot set, annotation class, controller mode)",
        "legs": [
            {"test": "TestC01", "quick": {"checks": 20000}, "thorough": {"checks": 1600000, "shards": 16}},
            {"test": "TestC01Exhaustive", "kind": "plain", "thorough": True},
            {"test": "FuzzC01", "kind": "fuzz", "thorough": {"seconds": 90}},
        ],
        "floors": {"slot-displaces-ordinal": 0.10, "negative/extreme/malformed": 0.05},
        "exhaustive_key": "exhaustive_cases",
        "assumptions": ["pure helper functions; controller part runs on the simulated cluster"] + COMMON_ASSUMPTIONS,
    },

    "C03": {
        "level": "exploration",
        "rule": "case = generated world (spec with replicas 0..5, slots, policy, strategy, partition; 1-3 template revisions created by the real "
                "controller; constructed or empty pod population over ordinals 0..8 incl. failed/terminating/outdated/orphan pods) plus a history of "
                "<= 40 ops (reconcile with fresh/stale caches, permuted cache order, injected API faults and mid-reconcile interference; kubelet steps; "
                "user edits of replicas/slots/template/partition; pod deletions; fair settle rounds). Oracle: every pod delete of every reconcile is "
                "classified against the cache snapshot that reconcile saw (outside desired set / failed pod immediately re-created / outdated pod at or "
                "above the partition under RollingUpdate); plus a metamorphic scale-in-at-slot-k scenario. Non-trivial = some reconcile issued a delete "
                "while its snapshot held both a condemned and a desired pod, or a slot below the top ordinal; distinct = distinct world+history",
        "legs": [
            {"test": "TestC03", "quick": {"checks": 3000}, "thorough": {"checks": 400000, "shards": 16}},
            {"test": "TestC03Meta", "quick": {"checks": 1500}, "thorough": {"checks": 200000, "shards": 16}},
        ],
        "floors": {"delete:scale-in": 0.2, "delete:update": 0.03, "delete:replace-failed": 0.02},
        "assumptions": COMMON_ASSUMPTIONS,
    },
    "C04": {
        "level": "exploration",
        "rule": "same world/history generator as C03 (plus 'set gets a deletion timestamp'); oracle: every pod create of every reconcile must name a "
                "desired ordinal of the snapshot's set, vacant among the snapshot's member pods (or just freed by deleting a failed pod), and the "
                "snapshot's set must not be deleting. Non-trivial = a reconcile created a pod while its snapshot had a vacant slot ordinal below the "
                "top, or an occupied desired ordinal, or a deleting set with vacancies; distinct = distinct world+history",
        "legs": [{"test": "TestC04", "quick": {"checks": 3000}, "thorough": {"checks": 400000, "shards": 16}}],
        "assumptions": COMMON_ASSUMPTIONS,
    },
    "C05": {
        "level": "exploration",
        "rule": "world/history generator of C03 restricted to OrderedReady sets; oracle per reconcile: <= 1 ordinal touched by pod creates/deletes; a "
                "create needs every lower desired pod Running+Ready+not terminating in the snapshot; a scale-in delete needs every desired pod "
                "Running+Ready and must hit the highest condemned pod; an update delete needs no condemned pod and all desired pods healthy. "
                "Non-trivial = snapshot with action-worthy work and at least one blocking condition (or >= 2 condemned pods); distinct = world+history",
        "legs": [{"test": "TestC05", "quick": {"checks": 3000}, "thorough": {"checks": 400000, "shards": 16}}],
        "assumptions": COMMON_ASSUMPTIONS,
    },
    "C07": {
        "level": "exploration",
        "rule": "world/history generator of C03 weighted towards template edits, partition edits and settle rounds (2-3 revisions in flight); oracle per "
                "reconcile: update deletes only under RollingUpdate, at ordinals >= partition, at most one, and only when every higher desired pod is up "
                "to date + Running + Ready and untouched in this reconcile; created pods carry the revision their ordinal calls for (current below the "
                "partition, update at/above) and are built from that revision's template. Non-trivial = a reconcile with an update delete or a (re)create "
                "while current != update revision; distinct = world+history",
        "legs": [{"test": "TestC07", "quick": {"checks": 3000}, "thorough": {"checks": 400000, "shards": 16}}],
        "assumptions": COMMON_ASSUMPTIONS,
    },
    "C14": {
        "level": "exploration",
        "rule": "world/history generator of C03 restricted to Parallel sets, mostly constructed populations, plus the op 'a claim is deleted and held by its finalizer'; oracle per reconcile in which no API call failed (judged by the calls, not by what the reconcile returns): every "
                "vacant desired ordinal of the snapshot is created and every live condemned pod deleted in that reconcile, <= 1 update delete, "
                "and the rolling-update discipline of C07 (an update delete needs every higher desired pod up to date and healthy). "
                "Non-trivial = k+m >= 2 with at least one unhealthy/terminating bystander pod; distinct = world+history",
        "legs": [{"test": "TestC14", "quick": {"checks": 3000}, "thorough": {"checks": 400000, "shards": 16}}],
        "floors": {"parallel-reconcile-with-scaling-work": 0.3},
        "assumptions": COMMON_ASSUMPTIONS,
    },
    "C15": {
        "level": "exploration",
        "rule": "case = (StatefulSet object constrained only by what manifests/crd.v1.yaml enforces: replicas 0..8 and revisionHistoryLimit >= 0 "
                "present, selector/template/serviceName present, everything else free - unknown policy/strategy strings, rollingUpdate block absent / "
                "empty / with partition in {int32 min, negatives, 0..10, int32 max}, empty or invalid selectors, empty templates, claim templates with "
                "empty/duplicate names, malformed annotations, arbitrary status; with and without client-side defaulting) x (<= 7 pods incl. "
                "non-canonical and extreme names, nil labels, foreign owners, any phase) x (<= 4 ControllerRevisions with legit or hostile JSON data, "
                "marker/selector labels, any owner) x (<= 8 steps of reconcile / kubelet-all / permuted-cache reconcile). Oracle: the reconcile "
                "returns (nil or error) - a recovered panic is a violation, signature = first repo frame. Non-trivial = the object differs from its "
                "defaulted form or carries a malformed/negative annotation; distinct = distinct case",
        "legs": [
            {"test": "TestC15", "quick": {"checks": 8000}, "thorough": {"checks": 800000, "shards": 16}},
            {"test": "FuzzC15", "kind": "fuzz", "thorough": {"seconds": 180}},
        ],
        "floors": {"rollingUpdate-block-without-partition": 0.1, "negative-partition": 0.05, "differs-from-defaulted-form": 0.3},
        "assumptions": ["replicas <= 8: a multi-GB allocation for replicas near 2^31 is resource exhaustion, not the panic the property is about",
                        "spec itself is present (an object without spec is not generated)"] + COMMON_ASSUMPTIONS,
    },
    "C02": {
        "level": "exploration",
        "rule": "case = generated world with a mostly constructed initial pod population (present / missing / unready / terminating / outdated / extra / "
                "orphaned / failed / succeeded pods over ordinals 0..8, 1-3 revisions with status.currentRevision re-pointed) + <= 25 random ops "
                "(reconciles with stale caches, faults incl. ones aimed at the status write, interference, kubelet steps, user edits, pods created "
                "or orphaned by somebody else, controller restart), then a fair closing schedule with state-cycle detection and a round bound "
                "B = 4(|pods|+r+|slots|+9)+16 - either direct (full refresh, reconcile, 0-2 extra reconciles that still see terminating pods, kubelet "
                "readies every remaining pod and finalises terminating ones) or, for a third of the cases, event-driven: the whole history delivers "
                "every cache change through the handlers the controller registered, and a reconcile happens only for a key that an event put into "
                "the work queue (quiescence = queue empty and caches current). Oracle at the fixed point: pods = exactly the desired ordinals, all Running+Ready, owned, "
                "at the revision their ordinal calls for; status.replicas = readyReplicas = spec.replicas; counters are an exact census; two more "
                "reconciles issue no write. Runs whose final state holds a Failed/Succeeded pod outside the desired set under OrderedReady are "
                "premise-excluded (counted). Non-trivial = the initial population needs >= 2 kinds of repair or a slot lies below the top ordinal; "
                "distinct = distinct world+history",
        "legs": [{"test": "TestC02", "quick": {"checks": 2500}, "thorough": {"checks": 300000, "shards": 16}}],
        "assumptions": ["bounded liveness: one fair schedule family; a fixed point must be reached within B rounds (B never binds on the healthy tree)"] + COMMON_ASSUMPTIONS,
    },
    "C12": {
        "level": "exploration",
        "rule": "case = world reached only through legitimate transitions (set created empty; template edits, rollbacks, scale edits, kubelet "
                "progress incl. pod failures, user pod deletions, stale caches, faults, mid-reconcile edits) of <= 40 ops, then the closing schedule "
                "(direct or event-driven as in C02). "
                "Oracle per status write: 0 <= ready/current/updated <= replicas, observedGeneration = reconciled generation and >= stored value, "
                "currentRevision moves only to updateRevision and only when the snapshot's pods are all updated and Ready; at the fixed point the "
                "four counters are an exact census of live pods. Non-trivial = a status write from a reconcile that also wrote a pod, or with >= 3 "
                "revisions referenced by pods/status; distinct = world+history",
        "legs": [{"test": "TestC12", "quick": {"checks": 2500}, "thorough": {"checks": 300000, "shards": 16}}],
        "floors": {"status-write-with->=3-revisions-in-flight": 0.02},
        "assumptions": COMMON_ASSUMPTIONS,
    },
    "C10": {
        "level": "exploration",
        "rule": "case = C03-style world plus up to 5 extra pods crossing owner (this set / none / same-named set with another UID / another kind / a "
                "second set with the same selector) x label match x name shape (S-i, S-0i, S-x, other-i, S-i-0) x terminating, up to 3 extra "
                "ControllerRevisions crossing owner x labels (selector / upgrade marker / both / none) x equal-or-different data, an optional second "
                "set with an overlapping selector (replicas 0-3) that the same controller reconciles at up to 4 drawn points of the history - every write of those "
                "reconciles must be on its own status, on pods named <second>-<ordinal> that it controls or may adopt, or on revisions no other owner controls -, and histories in which the cached set goes stale (set deleted, re-created with a new UID, deletion "
                "timestamp set in the API only; a re-created set may select differently, and an eighth of the histories re-use the name twice at generation 1); in a quarter of the cases a set with the SAME name lives in a second namespace with pods of the same names and is reconciled at drawn points - no call of any reconcile may leave its set's namespace. Oracle per reconcile: adopt patches only on adoptable pods and only after an uncached GET that "
                "confirmed UID and no deletion timestamp; release patches only on owned pods that stopped matching and removing exactly the own "
                "reference; no write at all on a pod or ControllerRevision controlled by another owner; no delete of a non-member; status.replicas "
                "counts member pods only; the set is written only through status; objects obtained from caches are unmodified afterwards. "
                "Non-trivial = the snapshot holds an object the controller must not touch or must adopt/release and the reconcile issued a write; "
                "distinct = distinct case",
        "legs": [{"test": "TestC10", "quick": {"checks": 3000}, "thorough": {"checks": 400000, "shards": 16}}],
        "floors": {"second-set-reconcile-wrote": 0.1},
        "assumptions": ["revisions carrying the upgrade marker naming this set are treated as handed over to it (C17/C18), whoever still owns them",
                        "pods named S-<digits> with a non-canonical number (S-01, S-99999999999) are ambiguous under 'name is S-<ordinal>': generated, not judged",
                        "re-using an existing identical-data revision whose name collides (C08) is not counted as 'using a foreign revision'"] + COMMON_ASSUMPTIONS,
    },
    "C11": {
        "level": "exploration",
        "rule": "case = C03-style world (constructed pods incl. adoptable orphans, orphan ControllerRevisions, faults, stale caches; no mid-reconcile "
                "interference) in whose history a flag is raised before op i - a deletion timestamp, or paused-reconcile=true lowered again before "
                "op j, or paused-reconcile=true joined by a deletion timestamp from op j on. Oracle while the snapshot shows the flag: paused => zero writes on every resource; deleting => no write on pods or claims, no "
                "write of any verb that changes the controlling owner of a pod or ControllerRevision; a stale-cached set that already carries the "
                "deletion timestamp in the API adopts nothing either; the un-pause, delivered as a set update event, must enqueue the set. Pause only: a never-paused twin (clone taken when the flag is raised) runs the "
                "same environment history; both are closed by the fair schedule, must satisfy the C02 fixed-point oracle and agree on the "
                "spec-determined projection (ordinals, readiness, status.replicas/readyReplicas, update-revision template, images of pods at or "
                "above the partition). Non-trivial = a clone reconciled at the moment the flag is raised would have written something and at least "
                "one reconcile saw the flag; distinct = distinct case",
        "legs": [{"test": "TestC11", "quick": {"checks": 2500}, "thorough": {"checks": 300000, "shards": 16}}],
        "floors": {"pause:flag-raised-while-work-pending": 0.1, "deletion:flag-raised-while-work-pending": 0.1, "pause:twin-compared": 0.2},
        "assumptions": ["values of paused-reconcile other than \"true\" are generated nowhere: the statement is silent about them"] + COMMON_ASSUMPTIONS,
    },
    "C13": {
        "level": "exploration",
        "rule": "case = world with limit in {0,1,2,3,10}, 1-3 real revisions + template edits, up to 5 extra revisions crossing owner (own / orphan / "
                "same-named set with another UID / other kind / second set) x labels (selector / marker / both / none) x equal numbers, orphan "
                "revisions, pods pinned to arbitrary revisions, optionally a deleting set; <= 14 ops. Oracle per reconcile: every deleted revision is "
                "controlled by this set and is neither current, update nor named by a member pod; deletions happen only when more than limit unused "
                "own revisions exist; in a fault-free reconcile the deleted names are exactly the (unused - limit) oldest by (revision, creation "
                "time, name), none twice. Non-trivial = a reconcile trimmed or saw more unused own revisions than the limit, or a doubly-listed / "
                "foreign revision is present; distinct = distinct case",
        "legs": [{"test": "TestC13", "quick": {"checks": 4000}, "thorough": {"checks": 400000, "shards": 16}}],
        "floors": {"doubly-listed-or-foreign-revision-present": 0.2, "deleting-set": 0.05},
        "assumptions": ["a revision the set owns but that carries neither selector labels nor the marker cannot be found by a label query and is not judged"] + COMMON_ASSUMPTIONS,
    },
    "C09": {
        "level": "fault_enumeration",
        "rule": "state = generated world (constructed pods, orphan revisions, claims) after a <= 20-op history; the unfaulted reconcile is run on a clone "
                "through a real worker step to learn its N API calls; then for each chosen position (quick: 4 drawn per state, thorough: all N) x "
                "each of 8 fault kinds (server error, timeout not applied, timeout applied, crash before / after the call, and the real "
                "interferences conflict, not-found, already-exists) a fresh clone is reconciled with that fault; a quarter of the states add a "
                "second fault (pairs), in the first recovery reconcile or - a third of them - 1-3 calls after the first one inside the same reconcile; the sampled tier always adds the pod creates/deletes and the uncached "
                "confirmation read of the set. One evaluation = one (state, position, kind) execution. Oracle: an error "
                "result bumps the key's requeue counter and the key comes back, success clears it; a transient fault that is answered with success "
                "must leave the same state as the unfaulted run; a call that an interference made fail for real may be answered with success only "
                "where the design tolerates it (adopt/release of a vanished pod, identical revision already there, conflict-retried updates); the safety monitors of C03/C04/C05/C07/C10/C12 hold on the faulted reconcile and "
                "on every reconcile of the recovery; the fair closing schedule reaches a fixed point equal (ordinals, readiness, owners, revisions "
                "at or above the partition, status, claims; for transient faults also every stored ControllerRevision with its owner, selector labels and upgrade marker) to that of the unfaulted twin. Non-trivial = the fault hits at or after the first write "
                "of a reconcile with >= 2 writes; distinct = distinct (state, position, kind, second fault)",
        "legs": [{"test": "TestC09", "quick": {"checks": 120}, "thorough": {"checks": 6400, "shards": 16}}],
        "floors": {"fault:crashAfter": 0.05, "target:create pods": 0.008, "target:update statefulsets": 0.02},
        "timeout": {"quick": 1500, "thorough": 14400},
        "assumptions": ["a crash is modelled as abandoning the reconcile at the call, building a new controller and refilling its caches",
                        "timeouts are the only 'applied but reported as failed' kind"] + COMMON_ASSUMPTIONS,
    },
    "C16": {
        "level": "exploration",
        "rule": "case = 1-3 cached sets (A; optionally B with the same or another selector; optionally one with an empty selector) and a sequence of <= 20 "
                "events delivered through the very handlers the real constructor registered on the informers: pod add / update(old,cur) / delete / "
                "delete-by-tombstone / tombstone holding a non-pod, over pods whose owner is none, A, A with a stale UID, another kind named like A, B "
                "or an unknown set, labels matching A, B, neither or nil, equal or different resource versions, with or without a deletion timestamp; "
                "set add / update (annotation-only change) / delete / tombstone; and runs of real worker steps with drawn success/failure incl. "
                "outages of 12-40 consecutive failures (on a queue of the same kind with a fast rate limiter, installed through a hook). Oracle "
                "after each event: the drained queue keys lie between REQ and ALLOW of a reference model of the statement (owner resolved by kind + "
                "name + UID; owner change => old and new owner; orphan => every matching set; unrelated => nothing; any set event => that set); a "
                "failing worker step bumps the requeue counter by exactly one and the key comes back, a succeeding one resets it to 0. Non-trivial = "
                "a required enqueue with a distractor set present, an owner change, or a tombstone; distinct = distinct case",
        "legs": [{"test": "TestC16", "quick": {"checks": 2400, "shards": 8}, "thorough": {"checks": 96000, "shards": 16}}],
        "floors": {"owner-change-event": 0.2, "tombstone-event": 0.2, "worker-steps": 0.2},
        "assumptions": ["sets with an invalid selector are not placed in the cache (the lister aborts matching on them: outside this statement, see DESIGN)",
                        "real time is used only to wait for client-go's delayed re-add (backoff 5ms..; 10s deadline), never as an oracle by itself"] + COMMON_ASSUMPTIONS,
    },
    "C20": {
        "level": "exploration",
        "rule": "case = a schedule of <= 20 ops over {source sends an event of type Added/Modified/Deleted/Bookmark/Error (payload drawn independently of the type: one of three "
                "Advanced StatefulSets, a fully populated one, a bare-resourceVersion bookmark object, a bookmark carrying the initial-events-end annotation, or a *metav1.Status for Error), consumer receives one event, consumer calls Stop "
                "(twice: idempotence), source closes}; the harness owns the source watch (buffered channel, counted Stop) and the consumer. Oracle: "
                "received events = a prefix of the sent ones with the same type and the equivalent built-in object (Status relayed unchanged); no "
                "panic in the relay (recorded through a PanicHandler with ReallyCrash=false); after Stop the relay goroutine exits without the "
                "consumer reading any further, after either ending the result channel is closed, the underlying Stop was called and no goroutine "
                "remains in (*hijackWatch).receive (runtime.Stack; 10 s deadline, the parked frame is the synchronous witness). Non-trivial = the "
                "schedule has an Error event, or a Stop while a sent event is unreceived; distinct = distinct schedule",
        "legs": [
            {"test": "TestC20", "quick": {"checks": 6000}, "thorough": {"checks": 800000, "shards": 16}},
            {"test": "TestC20", "race": True, "thorough": {"checks": 40000, "shards": 4}},
        ],
        "floors": {"has-error-event": 0.2, "stop-with-unreceived-events": 0.1},
        "assumptions": ["the relay goroutine is the only asynchronous party; waits on it are bounded by a 10 s deadline and never decide alone"],
    },
    "C19": {
        "level": "exploration",
        "rule": "three generators (the third: lists of 0-1501 stored sets read through the hijack client from a server that paginates like the API server - limit / continue, a continue token that expires once at a drawn page - by a caller that pages itself or not; the names returned must be the stored ones, in order). (a) whole-schema objects: rapid.MakeCustom reflects over every field of apps/v1 StatefulSet and of the Advanced StatefulSet "
                "(metadata incl. managedFields, full PodTemplateSpec, claim templates, status), nil vs empty collections and nil vs non-nil optional "
                "pointers included, with overrides that keep values JSON-representable (second-precision times, no pointer to a zero Time / empty "
                "FieldsV1, well-formed quantities incl. non-canonical ones, consistent IntOrString, valid UTF-8 incl. non-ASCII). Oracles: "
                "built-in -> Advanced -> built-in and Advanced -> built-in -> Advanced are the identity on modelled fields under Semantic.DeepEqual "
                "(unmodelled built-in fields zeroed), apiVersion/kind as stated, conversion never fails nor mutates its input; list conversion keeps "
                "length and order and equals item-wise single conversion; defaulting twice = once (semantically, and byte-wise on the template JSON); "
                "a defaulted object written through the hijack client (Create/Get/Update/UpdateStatus/List/Patch on fakes) reads back equal and "
                "re-submitting it leaves the stored template bytes unchanged. (b) annotation codecs over nil/non-nil annotation maps, slot sets over "
                "all of int32, pre-existing malformed values: Get(Set(S))=S, Add=union, empty/nil clears, other annotations untouched, same for the "
                "pause flag. Non-trivial = (a) object with >= 10 populated fields incl. an empty-but-non-nil collection, (b) non-empty slot set with "
                "other annotations or a nil map; distinct by object shape / case",
        "legs": [
            {"test": "TestC19", "quick": {"checks": 480, "shards": 8}, "thorough": {"checks": 48000, "shards": 16}},
            {"test": "TestC19Ann", "quick": {"checks": 20000}, "thorough": {"checks": 1600000, "shards": 16}},
            {"test": "TestC19List", "quick": {"checks": 40}, "thorough": {"checks": 800, "shards": 8}},
            {"test": "FuzzC19", "kind": "fuzz", "thorough": {"seconds": 180}},
        ],
        "floors": {"object-with->=10-populated-fields-and-an-empty-collection": 0.005, "annotation-codec-case": 0.5},
        "timeout": {"quick": 1500, "thorough": 14400},
        "assumptions": ["equality is apiequality.Semantic.DeepEqual (nil == empty collection, quantities by value, times by instant)",
                        "values that JSON cannot carry (pointer to zero Time, pointer to empty FieldsV1, sub-second times, invalid UTF-8) are outside the domain",
                        "the API server behind the hijack client is client-go's fake object tracker"],
    },
    "C06": {
        "level": "exploration",
        "rule": "case = world with 0-3 claim templates (one named like a pod suffix, optional own labels), set names incl. ones ending in -<digits>, "
                "selector with matchLabels or expressions only, several service names, and a <= 30-op history of scale-out / scale-in at slot k / "
                "slot removal (re-scale-out over the same ordinal) / kubelet steps, in which a quarter of the reconciles carry a single claim fault "
                "(claim create rejected, claim create applied but reported as timeout, claim cache lookup error, claim missing from the cache). "
                "Oracle per pod create: name/hostname = S-i, subdomain = governing service, pod-name label, revision label naming a stored revision "
                "whose template the pod is built from, exactly one controller reference to the set by UID, a volume per template bound to claim "
                "T-S-i; that claim exists in the API before the pod create, in the set's namespace, with the selector's matchLabels; no pod create "
                "after a failed claim lookup/creation of that pod in the same reconcile and such a reconcile reports an error; over the history no "
                "update/patch/delete on claims, no claim disappears, and an ordinal that comes back gets the same claim objects (UIDs). "
                "Non-trivial = a claim fault was injected and hit, or an ordinal was created a second time with claim templates; distinct = world+history",
        "legs": [{"test": "TestC06", "quick": {"checks": 3000}, "thorough": {"checks": 400000, "shards": 16}}],
        "floors": {"claim-failure-injected-and-hit": 0.05, "ordinal-created-again-with-claims": 0.05},
        "assumptions": COMMON_ASSUMPTIONS,
    },
    "C08": {
        "level": "exploration",
        "rule": "case = 1-4 pod templates (a third of them generated reflectively over the whole PodTemplateSpec schema with int32-range integers, "
                "non-canonical quantities, nil-vs-empty collections; the rest minimal) and <= 20 ops over {reconcile, switch to template i (fresh or "
                "an earlier one = rollback), edit replicas / delete-slots / pause flag / labels+annotations / history limit, kubelet progress, plant a "
                "ControllerRevision under the very name the next reconcile would create (learnt from a dry run on a clone) with different or with "
                "identical data, reconcile during which the first ControllerRevision write meets a real conflict (retried inside the controller) / a timeout that was applied / a server error}. Oracle after each successful unpaused reconcile: status.updateRevision names a stored revision whose data - decoded "
                "by the harness - equals the set's template and whose application (ApplyRevision) reproduces it; an unchanged template creates and "
                "rewrites no revision and keeps the update revision's name whatever else was edited; returning to a recorded template re-uses that "
                "revision, renumbered above all others, without a create; a planted different-data object is never overwritten nor adopted as update "
                "revision. Non-trivial = history with a rollback, a non-template edit between two reconciles, or a planted collision; distinct = case",
        "legs": [{"test": "TestC08", "quick": {"checks": 480, "shards": 8}, "thorough": {"checks": 64000, "shards": 16}}],
        "floors": {"rollback": 0.03, "non-template-edit-between-reconciles": 0.1, "planted-name-collision": 0.04},
        "timeout": {"quick": 1500, "thorough": 14400},
        "assumptions": ["template integers stay within int32 (getPatch goes through float64 as upstream does; only two pod fields admit larger values)"] + COMMON_ASSUMPTIONS,
    },
    "C17": {
        "level": "fault_enumeration",
        "rule": "world = built-in StatefulSet with 1-3 matchLabels keys (optionally plus a matchExpressions requirement), 0-5 ControllerRevisions of the set (a drawn subset of them unowned, waiting for adoption), "
                "0-2 unrelated revisions, 0-3 pods, 0-2 claims, Advanced object absent / present with the same spec / present with another spec. The "
                "uninterrupted Upgrade is run on one copy to learn its N API calls; then for each chosen position (quick: 4 drawn, thorough: all) x "
                "7 fault kinds (server error, timeout not applied, timeout applied, crash before / after, real conflict = the object is touched just "
                "before an update, real not-found = the object is removed just before the call) a fresh copy is upgraded by a caller that re-GETs the "
                "built-in set before every attempt and retries until it is gone; 1-3 of the attempts are faulted. One evaluation = one (world, "
                "position, kind). Oracle: no write on pods, claims, unrelated revisions; the built-in set is deleted only with orphan propagation and "
                "only when an Advanced set with the converted spec and status exists and every selected revision has lost all matchLabels keys and "
                "carries the marker (checked at the instant of the delete call); the retries terminate; the final state equals that of the "
                "uninterrupted run. Non-trivial = fault at or after the first write with >= 2 revisions; distinct = (world, position, kind)",
        "legs": [{"test": "TestC17", "quick": {"checks": 600}, "thorough": {"checks": 48000, "shards": 16}}],
        "floors": {"fault:conflict": 0.05, "fault:crashAfter": 0.05},
        "assumptions": ["selectors always carry at least one matchLabels key (for expression-only selectors the helper removes nothing; see DESIGN O1)",
                        "the caller re-reads the built-in set before each retry, as the helper's documentation demands"] + COMMON_ASSUMPTIONS,
    },
    "C18": {
        "level": "exploration",
        "rule": "two generators. (a) encoder differential: pod templates generated reflectively over the whole PodTemplateSpec schema, int64 fields over the "
                "full range incl. values around and above 2^53; oracle: the revision data the Advanced controller computes for the converted set is "
                "byte-identical to a reference re-implementation of the built-in controller's encoder (client-go scheme codec for apps/v1). "
                "(b) migration: a built-in world (set with defaulted fields, 1-4 revisions encoded and named as upstream does - fnv hash of the data "
                "- pods at generated revisions, status current/update at any rollout point, both pod-management policies, partition) is migrated with "
                "the real helper.Upgrade, then a generated schedule of reconciles, garbage-collector orphaning (all at once or object by object, "
                "before or between reconciles), kubelet progress and a controller crash right after a write, then a fair closing. Oracle: no reconcile "
                "creates a ControllerRevision, status.updateRevision stays the built-in update revision, no pod running the update revision is deleted "
                "and none at all when all were up to date, every marked revision ends label-synced and controlled by the Advanced set. Non-trivial = "
                "(a) template with >= 6 populated fields, (b) history of >= 2 revisions or migration mid-rollout; distinct by data bytes / case",
        "legs": [
            {"test": "TestC18Enc", "quick": {"checks": 640, "shards": 8}, "thorough": {"checks": 96000, "shards": 16}},
            {"test": "TestC18", "quick": {"checks": 2000}, "thorough": {"checks": 320000, "shards": 16}},
        ],
        "floors": {"migration-mid-rollout": 0.02, "template-with->=6-populated-fields": 0.02, "int64-above-2^53": 0.02},
        "timeout": {"quick": 1500, "thorough": 14400},
        "assumptions": ["the reference encoder is upstream's getPatch rebuilt on client-go's scheme (not linked from kubernetes itself, which is not vendored)",
                        "garbage collection is modelled as removing the owner references to the deleted built-in object"] + COMMON_ASSUMPTIONS,
    },
}
