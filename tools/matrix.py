#!/usr/bin/env python3
"""Sensitivity matrix: apply every seeded change (seeded/*/patch.diff) and every mutant
(mutants/*.diff) to a PRIVATE copy of the repository, run the quick checks that are recorded as
catching it, and write sensitivity/matrix.json.  Never touches /repo: run it as

    vp run --with-repo -- bash -c 'VERIF_REPO=$VP_RUN_REPO tools/matrix.py'

(or with VERIF_REPO pointing at any scratch worktree).  A row is 'caught' when at least one of the
expected checks exits 1 with a VIOLATION line; rc=2 (inconclusive) never counts."""
import glob, json, os, re, subprocess, sys, time

ROOT = os.path.dirname(os.path.dirname(os.path.abspath(__file__)))
repo = os.environ.get("VERIF_REPO")
if not repo or os.path.realpath(repo) == "/repo":
    sys.exit("set VERIF_REPO to a scratch copy of the repository (never /repo)")
only = sys.argv[1:]

def git(*a):
    return subprocess.run(["git", "-C", repo] + list(a), capture_output=True, text=True)

rows = []
items = []
for f in sorted(glob.glob(os.path.join(ROOT, "seeded/*/patch.diff"))):
    k = os.path.basename(os.path.dirname(f))
    meta = json.load(open(os.path.join(os.path.dirname(f), "meta.json")))
    if meta.get("obsolete") or meta.get("expect_checks") == []:
        rows.append({"change": "seeded/" + k, "status": "not-run: " + ("obsolete" if meta.get("obsolete") else "recorded as outside the properties' premises")})
        continue
    items.append(("seeded/" + k, f, meta.get("expect_checks", [k[:3]])))
for f in sorted(glob.glob(os.path.join(ROOT, "mutants/*.diff"))):
    k = os.path.basename(f)[:-5]
    items.append(("mutants/" + k, f, [k[:3].upper()]))
for name, patch, expect in items:
    if only and not any(o in name for o in only):
        continue
    git("checkout", "--", "."); git("clean", "-fdq")
    ap = git("apply", patch)
    row = {"change": name, "expect": expect, "results": {}}
    if ap.returncode != 0:
        row["status"] = "patch-does-not-apply"
        rows.append(row); print(name, row["status"], flush=True); continue
    caught = False
    for cid in expect:
        t0 = time.time()
        p = subprocess.run([os.path.join(ROOT, "check"), cid, "--tier", "quick"], cwd=ROOT,
                           capture_output=True, text=True, env=dict(os.environ, VERIF_SEED=os.environ.get("VERIF_SEED", "1")))
        out = p.stdout + p.stderr
        sig = re.findall(r"violation in \S+ (\S+)", out)[:2] or re.findall(r"VIOLATION-SIG\[([^\]]+)\]", out)[:2]
        row["results"][cid] = {"rc": p.returncode, "signatures": sorted(set(sig)), "wall_s": round(time.time() - t0, 1)}
        if p.returncode == 1 and "VIOLATION property=" in out:
            caught = True
            # keep the (shrunk) failing case: a candidate regress case that pins this detection down
            m = re.search(r"VIOLATION property=\S+ replay=(\S+\.json)", out)
            if m and os.path.exists(m.group(1)) and "regress" not in os.path.basename(m.group(1)):
                hd = os.path.join(ROOT, "sensitivity", "harvest", cid)
                os.makedirs(hd, exist_ok=True)
                import shutil
                shutil.copy(m.group(1), os.path.join(hd, "seed-" + name.replace("/", "-") + ".json"))
            break
    row["status"] = "caught" if caught else "MISSED"
    rows.append(row); print(name, row["status"], json.dumps(row["results"]), flush=True)
git("checkout", "--", "."); git("clean", "-fdq")
os.makedirs(os.path.join(ROOT, "sensitivity"), exist_ok=True)
json.dump({"repo_head": git("rev-parse", "HEAD").stdout.strip(), "rows": rows},
          open(os.path.join(ROOT, "sensitivity", "matrix.json"), "w"), indent=1)
missed = [r["change"] for r in rows if r["status"] != "caught" and not r["status"].startswith("not-run")]
print("TOTAL %d changes, %d caught, not caught: %s" % (len(rows), len(rows) - len(missed), missed))
