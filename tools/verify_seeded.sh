#!/bin/bash
# verify_seeded.sh <wt-dir> <seed-id> [demo-dest-relative] — confirm a seeded change in its scratch worktree:
#   existing tests pass with the patch; the demo fails with it and passes without it. Then copy it to /verif/seeded/<seed-id>/.
set -u
wt="$1"; id="$2"; dest="${3:-pkg/controller/statefulset/zz_demo_test.go}"
export GOFLAGS=-mod=mod GOPROXY=off GOSUMDB=off GOTOOLCHAIN=local
cd "$wt" || exit 3
git checkout -q -- . ; git clean -fdq -e OUT
git apply OUT/patch.diff || { echo "PATCH DOES NOT APPLY"; exit 3; }
pkgdir=$(dirname "$dest")
mod=.; case "$dest" in client/*) mod=client;; esac
echo "--- existing tests with patch"
(go build ./... && go test -vet=off -count=1 ./pkg/... ./test/integration/... 2>&1 | grep -v "no test files" | tail -3) ; r1=${PIPESTATUS[0]}
(cd client && go build ./... && go test -vet=off -count=1 ./... 2>&1 | grep -v "no test files" | tail -2)
cp OUT/demo_test.go "$dest"
echo "--- demo WITH patch (must fail)"
if [ "$mod" = client ]; then (cd client && go test -vet=off -count=1 -run 'Demo' ./${pkgdir#client/}/ 2>&1 | tail -4); else go test -vet=off -count=1 -run 'Demo' ./$pkgdir/ 2>&1 | tail -4; fi
git apply -R OUT/patch.diff
echo "--- demo WITHOUT patch (must pass)"
if [ "$mod" = client ]; then (cd client && go test -vet=off -count=1 -run 'Demo' ./${pkgdir#client/}/ 2>&1 | tail -3); else go test -vet=off -count=1 -run 'Demo' ./$pkgdir/ 2>&1 | tail -3; fi
rm -f "$dest"
mkdir -p /verif/seeded/$id && cp OUT/patch.diff OUT/demo_test.go /verif/seeded/$id/ && cp OUT/NOTES.md /verif/seeded/$id/NOTES.md 2>/dev/null
echo "copied to /verif/seeded/$id"
