#!/usr/bin/env python3
"""mkmutant.py <name> <file-relative-to-repo> <old> <new> [<file> <old> <new> ...]
Creates /verif/mutants/<name>.diff by applying exact-string replacements in /repo, taking git diff, and reverting."""
import subprocess, sys
name = sys.argv[1]
args = sys.argv[2:]
assert len(args) % 3 == 0
for i in range(0, len(args), 3):
    f, old, new = args[i:i+3]
    p = '/repo/' + f
    s = open(p).read()
    assert s.count(old) == 1, "pattern occurs %d times in %s" % (s.count(old), f)
    open(p, 'w').write(s.replace(old, new))
d = subprocess.run(['git', '-C', '/repo', 'diff'], capture_output=True, text=True).stdout
open('/verif/mutants/%s.diff' % name, 'w').write(d)
subprocess.run(['git', '-C', '/repo', 'checkout', '--', '.'], check=True)
print('wrote /verif/mutants/%s.diff (%d lines)' % (name, d.count('\n')))
