#!/bin/sh
# try_patch.sh <patch.diff> <tier> <id>...   apply a patch to /repo, run the checks, always revert.
patch="$(readlink -f "$1")"; tier="$2"; shift 2
if [ -n "$(git -C /repo status --porcelain)" ]; then echo "/repo not clean"; exit 3; fi
git -C /repo apply "$patch" || { echo "patch does not apply"; exit 3; }
# evidence written while a patch is applied must never end up committed: keep the clean-tree files
rm -rf /tmp/evidence.keep && cp -r /verif/evidence /tmp/evidence.keep
trap 'git -C /repo checkout -- . ; git -C /repo clean -fdq; rm -rf /verif/evidence; mv /tmp/evidence.keep /verif/evidence' EXIT INT TERM
for id in "$@"; do
  out=$(cd /verif && VERIF_SEED=${VERIF_SEED:-1} ./check "$id" --tier "$tier" 2>&1); rc=$?
  echo "[$id rc=$rc] $(echo "$out" | grep -E 'VIOLATION|INCONCLUSIVE|violation in' | head -3 | tr '\n' ' ')"
done
