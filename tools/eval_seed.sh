#!/bin/bash
# eval_seed.sh <worktree> <seed-id> <demo-dest> <check ids...> : verify a seeded change, store it, run the checks against it
wt="$1"; id="$2"; dest="$3"; shift 3
/verif/tools/verify_seeded.sh "$wt" "$id" "$dest" 2>&1 | cut -c1-180 | grep -E "^(---|ok|FAIL|PATCH|\s+zz_demo)" | head -14
if git -C /repo apply --check /verif/seeded/$id/patch.diff; then
  /verif/tools/try_patch.sh /verif/seeded/$id/patch.diff quick "$@" 2>&1 | cut -c1-260
else echo "PATCH DOES NOT APPLY ON /repo HEAD"; fi
