package sim

import (
	"fmt"
	metav1 "k8s.io/apimachinery/pkg/apis/meta/v1"
	"runtime/debug"
	"sort"
	"strings"
	"time"

	appsv1 "k8s.io/api/apps/v1"
	corev1 "k8s.io/api/core/v1"
	"k8s.io/apimachinery/pkg/api/meta"
	"k8s.io/apimachinery/pkg/runtime"
	"k8s.io/apimachinery/pkg/runtime/schema"
	"k8s.io/client-go/tools/cache"

	asv1 "github.com/pingcap/advanced-statefulset/client/apis/apps/v1"
)

// ---------------------------------------------------------------------------------------------
// direct (environment-side) access to the API state: never logged, never faulted

// Put stores obj as is (create or replace) bumping its resource version. Missing UID / creation
// time are filled in. Used by generators to construct arbitrary initial states and by env actors.
func (c *Cluster) Put(obj runtime.Object) runtime.Object {
	obj = obj.DeepCopyObject()
	m, _ := meta.Accessor(obj)
	gvr := GVROf(obj)
	if m.GetUID() == "" {
		m.SetUID(c.NewUID())
	}
	if ts := m.GetCreationTimestamp(); ts.IsZero() {
		m.SetCreationTimestamp(c.Tick())
	}
	if m.GetGeneration() == 0 {
		m.SetGeneration(1)
	}
	m.SetResourceVersion(c.nextRV())
	if c.get(gvr, m.GetNamespace(), m.GetName()) != nil {
		if err := c.tracker.Update(gvr, obj, m.GetNamespace()); err != nil {
			panic(err)
		}
	} else {
		if err := c.tracker.Create(gvr, obj, m.GetNamespace()); err != nil {
			panic(err)
		}
	}
	return c.get(gvr, m.GetNamespace(), m.GetName())
}

// Remove deletes the object from the API state outright.
func (c *Cluster) Remove(gvr schema.GroupVersionResource, ns, name string) bool {
	return c.tracker.Delete(gvr, ns, name) == nil
}

func GVROf(obj runtime.Object) schema.GroupVersionResource {
	switch obj.(type) {
	case *corev1.Pod:
		return GVRPods
	case *corev1.PersistentVolumeClaim:
		return GVRPVCs
	case *appsv1.ControllerRevision:
		return GVRRevs
	case *appsv1.StatefulSet:
		return GVRSts
	case *asv1.StatefulSet:
		return GVRASts
	}
	panic(fmt.Sprintf("sim: unknown type %T", obj))
}

func (c *Cluster) listAll(gvr schema.GroupVersionResource, kind string) []runtime.Object {
	gvk := schema.GroupVersionKind{Group: gvr.Group, Version: gvr.Version, Kind: kind}
	l, err := c.tracker.List(gvr, gvk, "")
	if err != nil {
		panic(err)
	}
	sortList(l)
	items, _ := meta.ExtractList(l)
	return items
}

func (c *Cluster) Pods() []*corev1.Pod {
	var out []*corev1.Pod
	for _, o := range c.listAll(GVRPods, "Pod") {
		out = append(out, o.(*corev1.Pod))
	}
	return out
}

func (c *Cluster) PodsIn(ns string) []*corev1.Pod {
	var out []*corev1.Pod
	for _, p := range c.Pods() {
		if p.Namespace == ns {
			out = append(out, p)
		}
	}
	return out
}

func (c *Cluster) PVCs() []*corev1.PersistentVolumeClaim {
	var out []*corev1.PersistentVolumeClaim
	for _, o := range c.listAll(GVRPVCs, "PersistentVolumeClaim") {
		out = append(out, o.(*corev1.PersistentVolumeClaim))
	}
	return out
}

func (c *Cluster) Revs() []*appsv1.ControllerRevision {
	var out []*appsv1.ControllerRevision
	for _, o := range c.listAll(GVRRevs, "ControllerRevision") {
		out = append(out, o.(*appsv1.ControllerRevision))
	}
	return out
}

func (c *Cluster) Sets() []*asv1.StatefulSet {
	var out []*asv1.StatefulSet
	for _, o := range c.listAll(GVRASts, "StatefulSet") {
		out = append(out, o.(*asv1.StatefulSet))
	}
	return out
}

func (c *Cluster) BuiltinSets() []*appsv1.StatefulSet {
	var out []*appsv1.StatefulSet
	for _, o := range c.listAll(GVRSts, "StatefulSet") {
		out = append(out, o.(*appsv1.StatefulSet))
	}
	return out
}

func (c *Cluster) Pod(ns, name string) *corev1.Pod {
	if o := c.get(GVRPods, ns, name); o != nil {
		return o.(*corev1.Pod)
	}
	return nil
}

func (c *Cluster) Rev(ns, name string) *appsv1.ControllerRevision {
	if o := c.get(GVRRevs, ns, name); o != nil {
		return o.(*appsv1.ControllerRevision)
	}
	return nil
}

func (c *Cluster) Set(ns, name string) *asv1.StatefulSet {
	if o := c.get(GVRASts, ns, name); o != nil {
		return o.(*asv1.StatefulSet)
	}
	return nil
}

func (c *Cluster) PVC(ns, name string) *corev1.PersistentVolumeClaim {
	if o := c.get(GVRPVCs, ns, name); o != nil {
		return o.(*corev1.PersistentVolumeClaim)
	}
	return nil
}

// ---------------------------------------------------------------------------------------------
// caches

func (c *Cluster) podIdx() cache.Indexer { return c.r.podInf.Informer().GetIndexer() }
func (c *Cluster) setIdx() cache.Indexer { return c.r.setInf.Informer().GetIndexer() }
func (c *Cluster) pvcIdx() cache.Indexer { return c.r.pvcInf.Informer().GetIndexer() }

func (c *Cluster) CachePods() []*corev1.Pod {
	var out []*corev1.Pod
	for _, o := range c.podIdx().List() {
		out = append(out, o.(*corev1.Pod))
	}
	sort.Slice(out, func(i, j int) bool {
		if out[i].Namespace != out[j].Namespace {
			return out[i].Namespace < out[j].Namespace
		}
		return out[i].Name < out[j].Name
	})
	return out
}

func (c *Cluster) CacheSet(ns, name string) *asv1.StatefulSet {
	o, ok, _ := c.setIdx().GetByKey(ns + "/" + name)
	if !ok {
		return nil
	}
	return o.(*asv1.StatefulSet)
}

func (c *Cluster) CacheSets() []*asv1.StatefulSet {
	var out []*asv1.StatefulSet
	for _, o := range c.setIdx().List() {
		out = append(out, o.(*asv1.StatefulSet))
	}
	sort.Slice(out, func(i, j int) bool { return out[i].Namespace+"/"+out[i].Name < out[j].Namespace+"/"+out[j].Name })
	return out
}

func (c *Cluster) CachePVCs() []*corev1.PersistentVolumeClaim {
	var out []*corev1.PersistentVolumeClaim
	for _, o := range c.pvcIdx().List() {
		out = append(out, o.(*corev1.PersistentVolumeClaim))
	}
	sort.Slice(out, func(i, j int) bool { return out[i].Namespace+"/"+out[i].Name < out[j].Namespace+"/"+out[j].Name })
	return out
}

// CachePutRaw places an arbitrary object in a cache (C15/C16 build cache contents directly).
func (c *Cluster) CachePutRaw(obj runtime.Object) {
	switch o := obj.(type) {
	case *corev1.Pod:
		c.podIdx().Add(o.DeepCopy())
	case *asv1.StatefulSet:
		c.setIdx().Add(o.DeepCopy())
	case *corev1.PersistentVolumeClaim:
		c.pvcIdx().Add(o.DeepCopy())
	default:
		panic(fmt.Sprintf("sim: no cache for %T", obj))
	}
}

func (c *Cluster) CacheDeleteRaw(obj runtime.Object) {
	switch o := obj.(type) {
	case *corev1.Pod:
		c.podIdx().Delete(o)
	case *asv1.StatefulSet:
		c.setIdx().Delete(o)
	case *corev1.PersistentVolumeClaim:
		c.pvcIdx().Delete(o)
	}
}

// RefreshAll makes every cache equal to the API state (deep copies). No notifications.
func (c *Cluster) RefreshAll() {
	c.RefreshPods()
	c.RefreshSets()
	c.RefreshPVCs()
}

func (c *Cluster) RefreshPods() {
	var objs []interface{}
	for _, p := range c.Pods() {
		objs = append(objs, p)
	}
	c.podIdx().Replace(objs, "")
	c.journal = nil // a relist: what came and went in between is never reported
}

func (c *Cluster) RefreshSets() {
	var objs []interface{}
	for _, p := range c.Sets() {
		objs = append(objs, p)
	}
	c.setIdx().Replace(objs, "")
}

func (c *Cluster) RefreshPVCs() {
	var objs []interface{}
	for _, p := range c.PVCs() {
		objs = append(objs, p)
	}
	c.pvcIdx().Replace(objs, "")
}

// RefreshPod brings one pod's cache entry up to date. With notify, the matching add / update /
// delete notification is delivered through the handlers the controller registered.
func (c *Cluster) RefreshPod(ns, name string, notify bool) (changed bool) {
	key := ns + "/" + name
	oldI, had, _ := c.podIdx().GetByKey(key)
	cur := c.Pod(ns, name)
	evs := c.journal[key]
	delete(c.journal, key)
	if notify {
		// replay every write the cache has not seen, as a watch would deliver them
		for _, ev := range evs {
			oI, h, _ := c.podIdx().GetByKey(key)
			switch {
			case ev.del:
				if h {
					c.podIdx().Delete(oI)
					for _, hd := range c.r.podHandlers {
						hd.OnDelete(oI)
					}
					changed = true
				}
			case !h:
				c.podIdx().Add(ev.pod)
				for _, hd := range c.r.podHandlers {
					hd.OnAdd(ev.pod, false)
				}
				changed = true
			default:
				o := oI.(*corev1.Pod)
				if o.ResourceVersion == ev.pod.ResourceVersion && o.UID == ev.pod.UID {
					continue
				}
				c.podIdx().Update(ev.pod)
				for _, hd := range c.r.podHandlers {
					if o.UID != ev.pod.UID {
						hd.OnDelete(o)
						hd.OnAdd(ev.pod, false)
					} else {
						hd.OnUpdate(o, ev.pod)
					}
				}
				changed = true
			}
		}
		oldI, had, _ = c.podIdx().GetByKey(key)
	}
	// whatever difference is left (no journal, or a lossy one) is closed by comparing states
	switch {
	case cur == nil && !had:
		return changed
	case cur == nil && had:
		c.podIdx().Delete(oldI)
		if notify {
			for _, h := range c.r.podHandlers {
				h.OnDelete(oldI)
			}
		}
	case cur != nil && !had:
		c.podIdx().Add(cur)
		if notify {
			for _, h := range c.r.podHandlers {
				h.OnAdd(cur, false)
			}
		}
	case cur != nil && had:
		old := oldI.(*corev1.Pod)
		if old.ResourceVersion == cur.ResourceVersion && old.UID == cur.UID {
			return changed
		}
		c.podIdx().Update(cur)
		if notify {
			for _, h := range c.r.podHandlers {
				if old.UID != cur.UID {
					h.OnDelete(old)
					h.OnAdd(cur, false)
				} else {
					h.OnUpdate(old, cur)
				}
			}
		}
	}
	return true
}

func (c *Cluster) RefreshSet(ns, name string, notify bool) (changed bool) {
	key := ns + "/" + name
	oldI, had, _ := c.setIdx().GetByKey(key)
	cur := c.Set(ns, name)
	switch {
	case cur == nil && !had:
		return false
	case cur == nil && had:
		c.setIdx().Delete(oldI)
		if notify {
			for _, h := range c.r.setHandlers {
				h.OnDelete(oldI)
			}
		}
	case cur != nil && !had:
		c.setIdx().Add(cur)
		if notify {
			for _, h := range c.r.setHandlers {
				h.OnAdd(cur, false)
			}
		}
	case cur != nil && had:
		old := oldI.(*asv1.StatefulSet)
		if old.ResourceVersion == cur.ResourceVersion && old.UID == cur.UID {
			return false
		}
		c.setIdx().Update(cur)
		if notify {
			for _, h := range c.r.setHandlers {
				h.OnUpdate(old, cur)
			}
		}
	}
	return true
}

func (c *Cluster) RefreshPVC(ns, name string) {
	key := ns + "/" + name
	oldI, had, _ := c.pvcIdx().GetByKey(key)
	cur := c.PVC(ns, name)
	switch {
	case cur == nil && had:
		c.pvcIdx().Delete(oldI)
	case cur != nil:
		c.pvcIdx().Update(cur)
	}
}

// ---------------------------------------------------------------------------------------------
// kubelet actor (direct writes, bump RV)

func (c *Cluster) savePod(p *corev1.Pod) {
	p.ResourceVersion = c.nextRV()
	if err := c.tracker.Update(GVRPods, p, p.Namespace); err != nil {
		panic(err)
	}
}

func setReady(p *corev1.Pod, ready bool) {
	st := corev1.ConditionFalse
	if ready {
		st = corev1.ConditionTrue
	}
	for i := range p.Status.Conditions {
		if p.Status.Conditions[i].Type == corev1.PodReady {
			p.Status.Conditions[i].Status = st
			return
		}
	}
	p.Status.Conditions = append(p.Status.Conditions, corev1.PodCondition{Type: corev1.PodReady, Status: st})
}

type KubeletOp int

const (
	KSchedule KubeletOp = iota // Pending, nodeName set
	KRun                       // Running (not ready)
	KReady                     // Running + Ready
	KUnready                   // Ready -> not ready
	KFail                      // phase Failed
	KSucceed                   // phase Succeeded
	KFinalize                  // a terminating pod disappears
	kubeletOps
)

const NumKubeletOps = int(kubeletOps)

func (k KubeletOp) String() string {
	return [...]string{"schedule", "run", "ready", "unready", "fail", "succeed", "finalize"}[k]
}

// Kubelet applies op to the pod if it makes sense in the pod's state; returns whether it did.
func (c *Cluster) Kubelet(ns, name string, op KubeletOp) bool {
	p := c.Pod(ns, name)
	if p == nil {
		return false
	}
	terminal := p.Status.Phase == corev1.PodFailed || p.Status.Phase == corev1.PodSucceeded
	switch op {
	case KSchedule:
		if p.Spec.NodeName != "" || terminal {
			return false
		}
		p.Spec.NodeName = "node"
	case KRun:
		if terminal || p.Status.Phase == corev1.PodRunning {
			return false
		}
		p.Spec.NodeName = "node"
		p.Status.Phase = corev1.PodRunning
		setReady(p, false)
	case KReady:
		if terminal || (p.Status.Phase == corev1.PodRunning && IsReady(p)) {
			return false
		}
		p.Spec.NodeName = "node"
		p.Status.Phase = corev1.PodRunning
		setReady(p, true)
	case KUnready:
		if p.Status.Phase != corev1.PodRunning || !IsReady(p) {
			return false
		}
		setReady(p, false)
	case KFail:
		if terminal {
			return false
		}
		p.Status.Phase = corev1.PodFailed
		setReady(p, false)
	case KSucceed:
		if terminal {
			return false
		}
		p.Status.Phase = corev1.PodSucceeded
		setReady(p, false)
	case KFinalize:
		if p.DeletionTimestamp == nil {
			return false
		}
		c.tracker.Delete(GVRPods, ns, name)
		return true
	}
	c.savePod(p)
	return true
}

// UserDeletePod deletes a pod the way an API client would (graceful when scheduled).
func (c *Cluster) UserDeletePod(ns, name string) bool {
	p := c.Pod(ns, name)
	if p == nil {
		return false
	}
	c.deletePod(p)
	return true
}

// UpdateSet applies f to the stored set as a user edit (spec change bumps generation).
func (c *Cluster) UpdateSet(ns, name string, f func(*asv1.StatefulSet)) bool {
	s := c.Set(ns, name)
	if s == nil {
		return false
	}
	n := s.DeepCopy()
	f(n)
	n.Status = *s.Status.DeepCopy()
	if !specEqual(s.Spec, n.Spec) {
		n.Generation = s.Generation + 1
	}
	n.ResourceVersion = c.nextRV()
	if err := c.tracker.Update(GVRASts, n, ns); err != nil {
		panic(err)
	}
	return true
}

// MarkSetDeleting sets a deletion timestamp on the set (foreground / finalizer deletion).
func (c *Cluster) MarkSetDeleting(ns, name string) bool { return c.MarkSetDeletingAt(ns, name, false) }

// MarkSetDeletingAt: with ahead, the deletion timestamp lies ahead of the controller's wall clock (the API
// server's clock runs ahead, or a grace period is in force) - the set is being deleted all the same.
func (c *Cluster) MarkSetDeletingAt(ns, name string, ahead bool) bool {
	s := c.Set(ns, name)
	if s == nil || s.DeletionTimestamp != nil {
		return false
	}
	ts := c.Tick()
	if ahead {
		ts = metav1.Unix(4102444800, 0) // 2100-01-01
	}
	s.DeletionTimestamp = &ts
	s.ResourceVersion = c.nextRV()
	c.tracker.Update(GVRASts, s, ns)
	return true
}

// ---------------------------------------------------------------------------------------------
// reconcile record

type Record struct {
	Key string
	// what the reconcile could see in its caches when it started
	CacheSet  *asv1.StatefulSet
	CachePods []*corev1.Pod
	CachePVCs []*corev1.PersistentVolumeClaim
	// API state before / after
	SetBefore, SetAfter   *asv1.StatefulSet
	PodsBefore, PodsAfter []*corev1.Pod
	RevsBefore, RevsAfter []*appsv1.ControllerRevision
	PVCsBefore, PVCsAfter []*corev1.PersistentVolumeClaim

	// ListedPods: the reconcile got as far as listing pods from the cache (CachePods is then that listing)
	ListedPods bool
	// LookupFailed: an injected failure of a claim cache lookup happened during the reconcile
	LookupFailed bool
	// SetReads: every read of a set from the cache during the reconcile, in order
	SetReads []SetRead

	Actions  []*Action
	Err      error
	Panic    interface{}
	Stack    string
	Crashed  bool
	ListPerm uint64
	// worker-step bookkeeping (ReconcileWorker only)
	ViaWorker bool
	Requeues  int
	ReAdded   bool
}

func (r *Record) Writes() []*Action {
	var out []*Action
	for _, a := range r.Actions {
		if a.IsWrite() {
			out = append(out, a)
		}
	}
	return out
}

func (r *Record) Transcript() string {
	var b strings.Builder
	fmt.Fprintf(&b, "reconcile %s perm=%d err=%v panic=%v crashed=%v\n", r.Key, r.ListPerm, r.Err, r.Panic, r.Crashed)
	if r.CacheSet != nil {
		fmt.Fprintf(&b, "  cached set: %s\n", DescribeSet(r.CacheSet))
	} else {
		fmt.Fprintf(&b, "  cached set: <absent>\n")
	}
	for _, p := range r.CachePods {
		fmt.Fprintf(&b, "  cached pod: %s\n", DescribePod(p))
	}
	for _, rv := range r.RevsBefore {
		fmt.Fprintf(&b, "  api rev: %s\n", DescribeRev(rv))
	}
	for _, a := range r.Actions {
		fmt.Fprintf(&b, "  %s\n", a)
	}
	return b.String()
}

func splitKey(key string) (string, string) {
	i := strings.Index(key, "/")
	if i < 0 {
		return "", key
	}
	return key[:i], key[i+1:]
}

// Reconcile runs one real reconcile of key against the current caches and records everything.
func (c *Cluster) Reconcile(key string) *Record {
	return c.reconcile(key, 0)
}

// ReconcileWorker runs the reconcile through one real worker step (dequeue, sync, then
// AddRateLimited or Forget) and reports the key's requeue counter afterwards. The error the worker
// swallowed is recovered from the error handler. ReAdded reports whether the key came back into the
// queue after a failure (waited for with a generous deadline; the backoff is 5ms).
func (c *Cluster) ReconcileWorker(key string) *Record {
	return c.reconcile(key, 1)
}

// QueueLen is the number of keys waiting in the controller's work queue.
func (c *Cluster) QueueLen() int { return c.r.ctrl.VerifQueue().Len() }

// ReconcileNextQueued lets the real worker process the next queued key (whatever the event handlers
// put there) and records that reconcile; nil when the queue is empty. A failed reconcile is put back by
// the worker with (fast) backoff; the call waits briefly for that re-add so that the caller sees it.
func (c *Cluster) ReconcileNextQueued() *Record {
	q := c.r.ctrl.VerifQueue()
	if q.Len() == 0 {
		return nil
	}
	k, _ := q.Get()
	key := k.(string)
	q.Done(k)
	q.Add(key) // back to the head of an (otherwise unchanged) queue: the worker takes it next
	rec := c.reconcile(key, 2)
	if rec.Requeues > 0 {
		deadline := time.Now().Add(2 * time.Second)
		for q.Len() == 0 && time.Now().Before(deadline) {
			time.Sleep(50 * time.Microsecond)
		}
	}
	return rec
}

// DrainQueue forgets every queued key (the events behind them are considered served).
func (c *Cluster) DrainQueue() { c.drainQueue() }

// Enqueue puts key into the controller's work queue (the initial list of a starting controller).
func (c *Cluster) Enqueue(key string) { c.r.ctrl.VerifQueue().Add(key) }

func (c *Cluster) drainQueue() {
	q := c.r.ctrl.VerifQueue()
	for q.Len() > 0 {
		k, _ := q.Get()
		q.Done(k)
	}
}

// mode: 0 direct call of sync, 1 one isolated worker step (queue drained first, re-add awaited and
// drained afterwards), 2 one worker step on the queue as it is (the key must be the next item)
func (c *Cluster) reconcile(key string, mode int) *Record {
	viaWorker := mode != 0
	ns, name := splitKey(key)
	rec := &Record{Key: key, ListPerm: c.ListPerm}
	if s := c.CacheSet(ns, name); s != nil {
		rec.CacheSet = s.DeepCopy()
	}
	for _, p := range c.CachePods() {
		if p.Namespace == ns {
			rec.CachePods = append(rec.CachePods, p.DeepCopy())
		}
	}
	for _, p := range c.CachePVCs() {
		if p.Namespace == ns {
			rec.CachePVCs = append(rec.CachePVCs, p.DeepCopy())
		}
	}
	rec.SetBefore = c.Set(ns, name)
	rec.PodsBefore = c.PodsIn(ns)
	rec.RevsBefore = c.Revs()
	rec.PVCsBefore = c.PVCs()

	c.Log = nil
	c.snapTaken = false
	c.lookupFailed = false
	c.setReads = nil
	c.logging = true
	func() {
		defer func() {
			if p := recover(); p != nil {
				if _, ok := p.(crashSentinel); ok {
					rec.Crashed = true
					return
				}
				rec.Panic = p
				rec.Stack = string(debug.Stack())
			}
		}()
		if !viaWorker {
			rec.Err = c.r.ctrl.VerifSync(key)
			return
		}
		q := c.r.ctrl.VerifQueue()
		rec.ViaWorker = true
		handledMu.Lock()
		lastHandled = nil
		handledMu.Unlock()
		if mode == 2 {
			c.r.ctrl.VerifProcessNextWorkItem()
			rec.Requeues = q.NumRequeues(key)
			handledMu.Lock()
			if lastHandled != nil && strings.Contains(lastHandled.Error(), "requeuing") {
				rec.Err = lastHandled
			}
			handledMu.Unlock()
			return
		}
		c.drainQueue()
		q.Forget(key)
		q.Add(key)
		defer func() {
			// also after a simulated crash: leave no delayed re-add behind
			rec.Requeues = q.NumRequeues(key)
			if rec.Requeues > 0 {
				deadline := time.Now().Add(5 * time.Second)
				for q.Len() == 0 && time.Now().Before(deadline) {
					time.Sleep(time.Millisecond)
				}
				rec.ReAdded = q.Len() > 0
				c.drainQueue()
			}
			q.Forget(key)
		}()
		c.r.ctrl.VerifProcessNextWorkItem()
		handledMu.Lock()
		if lastHandled != nil && strings.Contains(lastHandled.Error(), "requeuing") {
			rec.Err = lastHandled
		}
		handledMu.Unlock()
	}()
	c.logging = false
	rec.ListedPods = c.snapTaken
	rec.LookupFailed = c.lookupFailed
	rec.SetReads = c.setReads
	if c.snapTaken {
		rec.CachePods = c.snap
		c.snap = nil
	}
	rec.Actions = c.Log
	c.Log = nil

	rec.SetAfter = c.Set(ns, name)
	rec.PodsAfter = c.PodsIn(ns)
	rec.RevsAfter = c.Revs()
	rec.PVCsAfter = c.PVCs()
	return rec
}

// RunLogged runs f with action logging on and returns the log (for code that is not a reconcile:
// Upgrade, pod control, hijack client).
func (c *Cluster) RunLogged(f func()) (actions []*Action, crashed bool, panicked interface{}, stack string) {
	c.Log = nil
	c.logging = true
	func() {
		defer func() {
			if p := recover(); p != nil {
				if _, ok := p.(crashSentinel); ok {
					crashed = true
					return
				}
				panicked = p
				stack = string(debug.Stack())
			}
		}()
		f()
	}()
	c.logging = false
	actions = c.Log
	c.Log = nil
	return
}

// Clone deep-copies API state and caches into a fresh cluster with its own controller.
func (c *Cluster) Clone() *Cluster {
	n := New()
	n.clock, n.rv, n.uidN, n.uidTag = c.clock, c.rv, c.uidN, c.uidTag

	n.ListPerm = c.ListPerm
	for _, gk := range []struct {
		gvr  schema.GroupVersionResource
		kind string
	}{{GVRPods, "Pod"}, {GVRPVCs, "PersistentVolumeClaim"}, {GVRRevs, "ControllerRevision"}, {GVRSts, "StatefulSet"}, {GVRASts, "StatefulSet"}} {
		for _, o := range c.listAll(gk.gvr, gk.kind) {
			m, _ := meta.Accessor(o)
			if err := n.tracker.Create(gk.gvr, o, m.GetNamespace()); err != nil {
				panic(err)
			}
		}
	}
	n.journal = nil
	for k, evs := range c.journal {
		if n.journal == nil {
			n.journal = map[string][]podEvent{}
		}
		n.journal[k] = append([]podEvent(nil), evs...)
	}
	for _, o := range c.podIdx().List() {
		n.podIdx().Add(o.(*corev1.Pod).DeepCopy())
	}
	for _, o := range c.setIdx().List() {
		n.setIdx().Add(o.(*asv1.StatefulSet).DeepCopy())
	}
	for _, o := range c.pvcIdx().List() {
		n.pvcIdx().Add(o.(*corev1.PersistentVolumeClaim).DeepCopy())
	}
	return n
}

// CacheSnapshot returns every object pointer currently in the caches with a deep copy of it.
// After a reconcile the copies are compared with the (possibly replaced, but still referenced)
// originals to detect a controller that mutates objects it got from a lister.
type CachedObj struct {
	Obj  runtime.Object
	Copy runtime.Object
}

func (c *Cluster) CacheSnapshot() []CachedObj {
	var out []CachedObj
	for _, idx := range []cache.Indexer{c.podIdx(), c.setIdx(), c.pvcIdx()} {
		for _, o := range idx.List() {
			ro := o.(runtime.Object)
			out = append(out, CachedObj{Obj: ro, Copy: ro.DeepCopyObject()})
		}
	}
	return out
}
