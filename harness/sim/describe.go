package sim

import (
	"fmt"
	"sort"
	"strings"

	appsv1 "k8s.io/api/apps/v1"
	corev1 "k8s.io/api/core/v1"
	metav1 "k8s.io/apimachinery/pkg/apis/meta/v1"

	asv1 "github.com/pingcap/advanced-statefulset/client/apis/apps/v1"
)

func ownerStr(refs []metav1.OwnerReference) string {
	var parts []string
	for _, r := range refs {
		c := ""
		if r.Controller != nil && *r.Controller {
			c = "*"
		}
		parts = append(parts, fmt.Sprintf("%s%s/%s/%s", c, r.Kind, r.Name, r.UID))
	}
	return "[" + strings.Join(parts, ",") + "]"
}

func mapStr(m map[string]string) string {
	if m == nil {
		return "nil"
	}
	keys := make([]string, 0, len(m))
	for k := range m {
		keys = append(keys, k)
	}
	sort.Strings(keys)
	var parts []string
	for _, k := range keys {
		parts = append(parts, k+"="+m[k])
	}
	return "{" + strings.Join(parts, ",") + "}"
}

func IsReady(p *corev1.Pod) bool {
	for _, c := range p.Status.Conditions {
		if c.Type == corev1.PodReady {
			return c.Status == corev1.ConditionTrue
		}
	}
	return false
}

func DescribePod(p *corev1.Pod) string {
	s := fmt.Sprintf("%s/%s uid=%s rv=%s phase=%s ready=%v node=%q labels=%s owners=%s",
		p.Namespace, p.Name, p.UID, p.ResourceVersion, p.Status.Phase, IsReady(p), p.Spec.NodeName, mapStr(p.Labels), ownerStr(p.OwnerReferences))
	if p.DeletionTimestamp != nil {
		s += " TERMINATING"
	}
	if len(p.Spec.Containers) > 0 {
		s += " image=" + p.Spec.Containers[0].Image
	}
	return s
}

func DescribeRev(r *appsv1.ControllerRevision) string {
	return fmt.Sprintf("%s/%s uid=%s revision=%d created=%d labels=%s owners=%s data=%s",
		r.Namespace, r.Name, r.UID, r.Revision, r.CreationTimestamp.Unix(), mapStr(r.Labels), ownerStr(r.OwnerReferences), string(r.Data.Raw))
}

func i32(p *int32) string {
	if p == nil {
		return "nil"
	}
	return fmt.Sprint(*p)
}

func DescribeSet(s *asv1.StatefulSet) string {
	part := "nil-block"
	if s.Spec.UpdateStrategy.RollingUpdate != nil {
		part = "partition=" + i32(s.Spec.UpdateStrategy.RollingUpdate.Partition)
	}
	sel := "nil"
	if s.Spec.Selector != nil {
		sel = metav1.FormatLabelSelector(s.Spec.Selector)
	}
	img := ""
	if len(s.Spec.Template.Spec.Containers) > 0 {
		img = s.Spec.Template.Spec.Containers[0].Image
	}
	d := fmt.Sprintf("%s/%s uid=%s rv=%s gen=%d replicas=%s ann=%s policy=%q strategy=%q %s limit=%s selector=%s tmplLabels=%s image=%s claims=%d status={obs=%d r=%d ready=%d cur=%d upd=%d curRev=%q updRev=%q coll=%s}",
		s.Namespace, s.Name, s.UID, s.ResourceVersion, s.Generation, i32(s.Spec.Replicas), mapStr(s.Annotations),
		s.Spec.PodManagementPolicy, s.Spec.UpdateStrategy.Type, part, i32(s.Spec.RevisionHistoryLimit), sel,
		mapStr(s.Spec.Template.Labels), img, len(s.Spec.VolumeClaimTemplates),
		s.Status.ObservedGeneration, s.Status.Replicas, s.Status.ReadyReplicas, s.Status.CurrentReplicas, s.Status.UpdatedReplicas,
		s.Status.CurrentRevision, s.Status.UpdateRevision, i32(s.Status.CollisionCount))
	if s.DeletionTimestamp != nil {
		d += " DELETING"
	}
	return d
}

// Dump renders the whole API state (used in failure transcripts).
func (c *Cluster) Dump() string {
	var b strings.Builder
	for _, s := range c.Sets() {
		fmt.Fprintf(&b, "set  %s\n", DescribeSet(s))
	}
	for _, p := range c.Pods() {
		fmt.Fprintf(&b, "pod  %s\n", DescribePod(p))
	}
	for _, r := range c.Revs() {
		fmt.Fprintf(&b, "rev  %s\n", DescribeRev(r))
	}
	for _, p := range c.PVCs() {
		fmt.Fprintf(&b, "pvc  %s/%s uid=%s labels=%s\n", p.Namespace, p.Name, p.UID, mapStr(p.Labels))
	}
	return b.String()
}
