package sim

import (
	"context"
	"testing"

	corev1 "k8s.io/api/core/v1"
	apierrors "k8s.io/apimachinery/pkg/api/errors"
	metav1 "k8s.io/apimachinery/pkg/apis/meta/v1"
	"k8s.io/apimachinery/pkg/types"
)

// One unit check per row of the API-server semantics table in DESIGN.md section 2.3: a wrong model
// is the main source of false alarms, so the model itself is pinned down here.

func TestSemantics(t *testing.T) {
	c := New()
	defer c.Close()
	ctx := context.TODO()
	pods := c.Kube().CoreV1().Pods("ns")

	// create: fresh UID always, resource version, creation time, phase Pending, generation 1
	p, err := pods.Create(ctx, &corev1.Pod{ObjectMeta: metav1.ObjectMeta{Name: "a", UID: "supplied"}}, metav1.CreateOptions{})
	if err != nil || p.UID == "supplied" || p.UID == "" || p.ResourceVersion == "" || p.CreationTimestamp.IsZero() || p.Status.Phase != corev1.PodPending || p.Namespace != "ns" {
		t.Fatalf("create semantics: %+v %v", p, err)
	}
	if _, err := pods.Create(ctx, &corev1.Pod{ObjectMeta: metav1.ObjectMeta{Name: "a"}}, metav1.CreateOptions{}); !apierrors.IsAlreadyExists(err) {
		t.Fatalf("second create: %v", err)
	}
	// update: stale resource version -> Conflict; success bumps it; pod status is not writable through update
	stale := p.DeepCopy()
	p2 := p.DeepCopy()
	p2.Labels = map[string]string{"x": "y"}
	p2.Status.Phase = corev1.PodRunning
	u, err := pods.Update(ctx, p2, metav1.UpdateOptions{})
	if err != nil || u.ResourceVersion == p.ResourceVersion || u.Status.Phase != corev1.PodPending || u.Labels["x"] != "y" {
		t.Fatalf("update semantics: %+v %v", u, err)
	}
	stale.Labels = map[string]string{"z": "z"}
	if _, err := pods.Update(ctx, stale, metav1.UpdateOptions{}); !apierrors.IsConflict(err) {
		t.Fatalf("stale update must conflict: %v", err)
	}
	if _, err := pods.Update(ctx, &corev1.Pod{ObjectMeta: metav1.ObjectMeta{Name: "nope"}}, metav1.UpdateOptions{}); !apierrors.IsNotFound(err) {
		t.Fatalf("update of a missing object: %v", err)
	}
	// patch: uid guard -> Invalid; a second controller reference -> Invalid; otherwise applied and RV bumped
	tr := true
	if _, err := pods.Patch(ctx, "a", types.StrategicMergePatchType, []byte(`{"metadata":{"uid":"wrong","labels":{"k":"v"}}}`), metav1.PatchOptions{}); !apierrors.IsInvalid(err) {
		t.Fatalf("uid-guarded patch: %v", err)
	}
	own := `{"metadata":{"uid":"` + string(u.UID) + `","ownerReferences":[{"apiVersion":"v1","kind":"K","name":"o1","uid":"o1","controller":true}]}}`
	pp, err := pods.Patch(ctx, "a", types.StrategicMergePatchType, []byte(own), metav1.PatchOptions{})
	if err != nil || len(pp.OwnerReferences) != 1 || pp.ResourceVersion == u.ResourceVersion {
		t.Fatalf("adopt patch: %+v %v", pp, err)
	}
	second := `{"metadata":{"ownerReferences":[{"apiVersion":"v1","kind":"K","name":"o2","uid":"o2","controller":true}]}}`
	if _, err := pods.Patch(ctx, "a", types.StrategicMergePatchType, []byte(second), metav1.PatchOptions{}); !apierrors.IsInvalid(err) {
		t.Fatalf("second controller reference must be rejected: %v", err)
	}
	if got := c.Pod("ns", "a"); len(got.OwnerReferences) != 1 || got.OwnerReferences[0].UID != "o1" {
		t.Fatalf("rejected patch must not be stored: %+v", got.OwnerReferences)
	}
	rel := `{"metadata":{"uid":"` + string(u.UID) + `","ownerReferences":[{"$patch":"delete","uid":"o1"}]}}`
	pr, err := pods.Patch(ctx, "a", types.StrategicMergePatchType, []byte(rel), metav1.PatchOptions{})
	if err != nil || len(pr.OwnerReferences) != 0 {
		t.Fatalf("release patch: %+v %v", pr, err)
	}
	_ = tr
	// delete pod: unscheduled -> removed at once
	if err := pods.Delete(ctx, "a", metav1.DeleteOptions{}); err != nil || c.Pod("ns", "a") != nil {
		t.Fatalf("unscheduled pod must be removed at once: %v", err)
	}
	if err := pods.Delete(ctx, "a", metav1.DeleteOptions{}); !apierrors.IsNotFound(err) {
		t.Fatalf("delete of a missing pod: %v", err)
	}
	// scheduled running pod -> terminating, kept; second delete is a no-op; kubelet finalises it
	pods.Create(ctx, &corev1.Pod{ObjectMeta: metav1.ObjectMeta{Name: "b"}}, metav1.CreateOptions{})
	c.Kubelet("ns", "b", KReady)
	if err := pods.Delete(ctx, "b", metav1.DeleteOptions{}); err != nil || c.Pod("ns", "b") == nil || c.Pod("ns", "b").DeletionTimestamp == nil {
		t.Fatalf("graceful delete: %v", err)
	}
	rv := c.Pod("ns", "b").ResourceVersion
	if err := pods.Delete(ctx, "b", metav1.DeleteOptions{}); err != nil || c.Pod("ns", "b").ResourceVersion != rv {
		t.Fatalf("deleting a terminating pod must be an accepted no-op: %v", err)
	}
	// a terminating pod that has failed is removed at once by a further delete (grace period 0)
	c.Kubelet("ns", "b", KFail)
	if err := pods.Delete(ctx, "b", metav1.DeleteOptions{}); err != nil || c.Pod("ns", "b") != nil {
		t.Fatalf("failed terminating pod must be removed at once: %v", err)
	}
	pods.Create(ctx, &corev1.Pod{ObjectMeta: metav1.ObjectMeta{Name: "c"}}, metav1.CreateOptions{})
	c.Kubelet("ns", "c", KReady)
	pods.Delete(ctx, "c", metav1.DeleteOptions{})
	if !c.Kubelet("ns", "c", KFinalize) || c.Pod("ns", "c") != nil {
		t.Fatalf("finalize")
	}

	// Advanced StatefulSet: Update never persists status and bumps generation only on spec change;
	// UpdateStatus persists only status
	set := basicSet(2)
	sets := c.PC().AppsV1().StatefulSets("ns")
	s0, err := sets.Create(ctx, set, metav1.CreateOptions{})
	if err != nil || s0.Generation != 1 {
		t.Fatalf("set create: %v", err)
	}
	s1 := s0.DeepCopy()
	s1.Status.Replicas = 9
	s1.Labels = map[string]string{"l": "v"}
	s1u, err := sets.Update(ctx, s1, metav1.UpdateOptions{})
	if err != nil || s1u.Status.Replicas != 0 || s1u.Generation != 1 || s1u.Labels["l"] != "v" {
		t.Fatalf("set update (metadata only): %+v %v", s1u, err)
	}
	s2 := s1u.DeepCopy()
	r := int32(5)
	s2.Spec.Replicas = &r
	s2u, err := sets.Update(ctx, s2, metav1.UpdateOptions{})
	if err != nil || s2u.Generation != 2 {
		t.Fatalf("spec change must bump generation: %+v %v", s2u, err)
	}
	s3 := s2u.DeepCopy()
	s3.Status.Replicas = 4
	r3 := int32(7)
	s3.Spec.Replicas = &r3
	s3u, err := sets.UpdateStatus(ctx, s3, metav1.UpdateOptions{})
	if err != nil || s3u.Status.Replicas != 4 || *s3u.Spec.Replicas != 5 || s3u.Generation != 2 {
		t.Fatalf("UpdateStatus must persist only status: %+v %v", s3u, err)
	}
	if _, err := sets.UpdateStatus(ctx, s2u, metav1.UpdateOptions{}); !apierrors.IsConflict(err) {
		t.Fatalf("stale UpdateStatus must conflict: %v", err)
	}

	// list honours label selectors and is sorted by name
	revs := c.Kube().AppsV1().ControllerRevisions("ns")
	for _, n := range []string{"r2", "r1", "r3"} {
		lbl := map[string]string{"app": "web"}
		if n == "r3" {
			lbl = map[string]string{"app": "other"}
		}
		c.Put(mkRev(n, lbl))
	}
	l, err := revs.List(ctx, metav1.ListOptions{LabelSelector: "app=web"})
	if err != nil || len(l.Items) != 2 || l.Items[0].Name != "r1" || l.Items[1].Name != "r2" {
		t.Fatalf("list: %+v %v", l, err)
	}

	// delete preconditions are checked as the API server checks them
	staleRV := "1"
	if err := revs.Delete(ctx, "r1", metav1.DeleteOptions{Preconditions: &metav1.Preconditions{ResourceVersion: &staleRV}}); !apierrors.IsConflict(err) || c.Rev("ns", "r1") == nil {
		t.Fatalf("delete with a stale resourceVersion precondition: %v", err)
	}
	curRV := c.Rev("ns", "r1").ResourceVersion
	if err := revs.Delete(ctx, "r1", metav1.DeleteOptions{Preconditions: &metav1.Preconditions{ResourceVersion: &curRV}}); err != nil || c.Rev("ns", "r1") != nil {
		t.Fatalf("delete with a matching precondition: %v", err)
	}
	// events are accepted and never logged
	c.Log = nil
	c.logging = true
	c.Kube().CoreV1().Events("ns").Create(ctx, &corev1.Event{ObjectMeta: metav1.ObjectMeta{Name: "e"}}, metav1.CreateOptions{})
	c.logging = false
	if len(c.Log) != 0 {
		t.Fatalf("events must not be logged")
	}

	// caches move only when told to
	if len(c.CachePods()) != 0 {
		t.Fatalf("caches must start empty")
	}
	pods.Create(ctx, &corev1.Pod{ObjectMeta: metav1.ObjectMeta{Name: "d"}}, metav1.CreateOptions{})
	if len(c.CachePods()) != 0 {
		t.Fatalf("cache must not follow the API by itself")
	}
	c.RefreshAll()
	if len(c.CachePods()) != 1 || c.CacheSet("ns", "web") == nil {
		t.Fatalf("refresh")
	}
	// a pod that comes and goes while the cache is behind is still reported (add, then delete)
	pods.Create(ctx, &corev1.Pod{ObjectMeta: metav1.ObjectMeta{Name: "g"}}, metav1.CreateOptions{})
	pods.Delete(ctx, "g", metav1.DeleteOptions{})
	if g := c.PendingPodEvents("ns"); len(g) != 1 || g[0] != "g" {
		t.Fatalf("pending pod events: %v", g)
	}
	if !c.RefreshPod("ns", "g", true) || len(c.PendingPodEvents("ns")) != 0 || c.RefreshPod("ns", "g", true) {
		t.Fatalf("delivery of add+delete for a pod the cache never held")
	}
	// two writes that cancel out (adopt, release) are still two update events: the controller's
	// handler wakes the set although first and last state look alike
	pods.Create(ctx, &corev1.Pod{ObjectMeta: metav1.ObjectMeta{Name: "web-7", Labels: map[string]string{"app": "web"}}}, metav1.CreateOptions{})
	c.RefreshPod("ns", "web-7", true)
	c.DrainQueue()
	w7 := c.Pod("ns", "web-7")
	ad := `{"metadata":{"uid":"` + string(w7.UID) + `","ownerReferences":[{"apiVersion":"apps.pingcap.com/v1","kind":"StatefulSet","name":"web","uid":"` + string(c.Set("ns", "web").UID) + `","controller":true}]}}`
	if _, err := pods.Patch(ctx, "web-7", types.StrategicMergePatchType, []byte(ad), metav1.PatchOptions{}); err != nil {
		t.Fatal(err)
	}
	rl := `{"metadata":{"uid":"` + string(w7.UID) + `","ownerReferences":[{"$patch":"delete","uid":"` + string(c.Set("ns", "web").UID) + `"}]}}`
	if _, err := pods.Patch(ctx, "web-7", types.StrategicMergePatchType, []byte(rl), metav1.PatchOptions{}); err != nil {
		t.Fatal(err)
	}
	if !c.RefreshPod("ns", "web-7", true) || c.QueueLen() != 1 {
		t.Fatalf("adopt+release unseen by the cache must still wake the set (queue %d)", c.QueueLen())
	}
	c.DrainQueue()
	// clone is deep and independent
	n := c.Clone()
	defer n.Close()
	n.Kubelet("ns", "d", KReady)
	if IsReady(c.Pod("ns", "d")) || !IsReady(n.Pod("ns", "d")) {
		t.Fatalf("clone must be independent")
	}
}
