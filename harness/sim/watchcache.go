package sim

import (
	"context"
	"strconv"

	metav1 "k8s.io/apimachinery/pkg/apis/meta/v1"

	asv1 "github.com/pingcap/advanced-statefulset/client/apis/apps/v1"
	pcclient "github.com/pingcap/advanced-statefulset/client/client/clientset/versioned"
	pctyped "github.com/pingcap/advanced-statefulset/client/client/clientset/versioned/typed/apps/v1"
)

// The generated fake clientsets drop GetOptions. An API server does not: a GET that names a resourceVersion
// ("0", or any version) may be answered from the server's watch cache with any object at least that new - it
// is not a quorum read. pcWrap stands in front of the controller's clientset and serves such a GET from the
// only lagging copy the simulation has, the set informer's (if that copy is new enough for the request); the
// call never reaches the API and is therefore not in the action log as an uncached read.
type pcWrap struct {
	pcclient.Interface
	r *rig
}

func (w pcWrap) AppsV1() pctyped.AppsV1Interface { return pcApps{w.Interface.AppsV1(), w.r} }

type pcApps struct {
	pctyped.AppsV1Interface
	r *rig
}

func (a pcApps) StatefulSets(ns string) pctyped.StatefulSetInterface {
	return pcSets{a.AppsV1Interface.StatefulSets(ns), a.r, ns}
}

type pcSets struct {
	pctyped.StatefulSetInterface
	r  *rig
	ns string
}

func (s pcSets) Get(ctx context.Context, name string, opts metav1.GetOptions) (*asv1.StatefulSet, error) {
	if opts.ResourceVersion != "" && s.r.cur != nil {
		if cached := s.r.cur.CacheSet(s.ns, name); cached != nil {
			want, err1 := strconv.ParseInt(opts.ResourceVersion, 10, 64)
			have, err2 := strconv.ParseInt(cached.ResourceVersion, 10, 64)
			if err1 == nil && err2 == nil && have >= want {
				s.r.cur.WatchCacheReads++
				return cached.DeepCopy(), nil
			}
		}
	}
	return s.StatefulSetInterface.Get(ctx, name, opts)
}
