package sim

import (
	appsv1 "k8s.io/api/apps/v1"
	"testing"

	corev1 "k8s.io/api/core/v1"
	metav1 "k8s.io/apimachinery/pkg/apis/meta/v1"

	asv1 "github.com/pingcap/advanced-statefulset/client/apis/apps/v1"
)

func basicSet(replicas int32) *asv1.StatefulSet {
	s := &asv1.StatefulSet{
		TypeMeta:   metav1.TypeMeta{Kind: "StatefulSet", APIVersion: "apps.pingcap.com/v1"},
		ObjectMeta: metav1.ObjectMeta{Name: "web", Namespace: "ns"},
		Spec: asv1.StatefulSetSpec{
			Replicas:    &replicas,
			Selector:    &metav1.LabelSelector{MatchLabels: map[string]string{"app": "web"}},
			ServiceName: "svc",
			Template: corev1.PodTemplateSpec{
				ObjectMeta: metav1.ObjectMeta{Labels: map[string]string{"app": "web"}},
				Spec:       corev1.PodSpec{Containers: []corev1.Container{{Name: "c", Image: "img:1"}}},
			},
		},
	}
	asv1.SetObjectDefaults_StatefulSet(s)
	return s
}

func TestSmoke(t *testing.T) {
	c := New()
	defer c.Close()
	c.Put(basicSet(3))
	for round := 0; round < 10; round++ {
		c.RefreshAll()
		rec := c.Reconcile("ns/web")
		if rec.Err != nil || rec.Panic != nil {
			t.Fatalf("round %d: err=%v panic=%v\n%s", round, rec.Err, rec.Panic, rec.Stack)
		}
		t.Logf("round %d:\n%s", round, rec.Transcript())
		for _, p := range c.Pods() {
			c.Kubelet(p.Namespace, p.Name, KReady)
		}
	}
	t.Log("\n" + c.Dump())
	if len(c.Pods()) != 3 {
		t.Fatalf("want 3 pods")
	}
}

func mkRev(name string, lbl map[string]string) *appsv1.ControllerRevision {
	return &appsv1.ControllerRevision{ObjectMeta: metav1.ObjectMeta{Name: name, Namespace: "ns", Labels: lbl}}
}
