// Package sim is a single-threaded, deterministic simulated cluster around the real
// StatefulSetController: client-go fake clientsets with API-server semantics added in a reactor,
// caches that move only when the harness says so, a recorded action log per reconcile, and
// fault / interference injection between any two API calls.
package sim

import (
	"encoding/json"
	"fmt"
	aslisters "github.com/pingcap/advanced-statefulset/client/client/listers/apps/v1"
	"sort"
	"strconv"
	"strings"
	"sync"
	"sync/atomic"
	"time"

	appsv1 "k8s.io/api/apps/v1"
	corev1 "k8s.io/api/core/v1"
	apiequality "k8s.io/apimachinery/pkg/api/equality"
	apierrors "k8s.io/apimachinery/pkg/api/errors"
	"k8s.io/apimachinery/pkg/api/meta"
	metav1 "k8s.io/apimachinery/pkg/apis/meta/v1"
	"k8s.io/apimachinery/pkg/labels"
	"k8s.io/apimachinery/pkg/runtime"
	"k8s.io/apimachinery/pkg/runtime/schema"
	"k8s.io/apimachinery/pkg/types"
	utilruntime "k8s.io/apimachinery/pkg/util/runtime"
	kubeinformers "k8s.io/client-go/informers"
	kubeappsinformers "k8s.io/client-go/informers/apps/v1"
	coreinformers "k8s.io/client-go/informers/core/v1"
	kubefake "k8s.io/client-go/kubernetes/fake"
	corelisters "k8s.io/client-go/listers/core/v1"
	clienttesting "k8s.io/client-go/testing"
	"k8s.io/client-go/tools/cache"
	"k8s.io/client-go/util/retry"
	"k8s.io/client-go/util/workqueue"
	"k8s.io/klog/v2"

	"github.com/go-logr/logr"
	asv1 "github.com/pingcap/advanced-statefulset/client/apis/apps/v1"
	pcfake "github.com/pingcap/advanced-statefulset/client/client/clientset/versioned/fake"
	asscheme "github.com/pingcap/advanced-statefulset/client/client/clientset/versioned/scheme"
	pcinformers "github.com/pingcap/advanced-statefulset/client/client/informers/externalversions"
	asinformers "github.com/pingcap/advanced-statefulset/client/client/informers/externalversions/apps/v1"
	"github.com/pingcap/advanced-statefulset/pkg/controller/statefulset"
)

var (
	GVRPods = schema.GroupVersionResource{Group: "", Version: "v1", Resource: "pods"}
	GVRPVCs = schema.GroupVersionResource{Group: "", Version: "v1", Resource: "persistentvolumeclaims"}
	GVRRevs = schema.GroupVersionResource{Group: "apps", Version: "v1", Resource: "controllerrevisions"}
	GVRSts  = schema.GroupVersionResource{Group: "apps", Version: "v1", Resource: "statefulsets"}
	GVRASts = schema.GroupVersionResource{Group: "apps.pingcap.com", Version: "v1", Resource: "statefulsets"}
)

var initOnce sync.Once

// PanicsSeen collects errors reported through utilruntime.HandleError (never used as an oracle,
// only for diagnostics) — and keeps HandleError from sleeping.
var HandledErrors int

var (
	handledMu   sync.Mutex
	lastHandled error
)

// Init applies the process-wide harness settings (discard logger, no sleeping error handlers).
func Init() { globalInit() }

func globalInit() {
	initOnce.Do(func() {
		klog.SetLogger(logr.Discard())
		utilruntime.ErrorHandlers = []func(error){func(err error) {
			HandledErrors++
			handledMu.Lock()
			lastHandled = err
			handledMu.Unlock()
		}}
		// client-go's conflict-retry helpers sleep between attempts (10ms..310ms in total). Keep the
		// number of attempts, drop the real-time waiting: nothing in the simulation advances with
		// wall-clock time.
		retry.DefaultRetry.Duration = time.Nanosecond
		retry.DefaultBackoff.Duration = time.Nanosecond
	})
}

// Fault describes what the harness does to one API call.
type Fault struct {
	// Err is returned to the caller.
	Err error
	// Apply: execute the call against the store first, then return Err (a lost response).
	Apply bool
	// Crash: abort the reconcile at this call (after applying it when Apply is set).
	Crash bool
}

type crashSentinel struct{}

// Action is one API call as the reactor saw it.
type Action struct {
	Idx         int
	Verb        string
	GVR         schema.GroupVersionResource
	Resource    string
	Subresource string
	Namespace   string
	Name        string
	Obj         runtime.Object // object sent (create/update), deep copy
	Patch       []byte
	PatchType   types.PatchType
	DeleteOpts  metav1.DeleteOptions
	Selector    string         // list label selector
	Before      runtime.Object // stored object before a write / get (nil if absent)
	Result      runtime.Object // returned object
	Err         error
	Faulted     bool
}

func (a *Action) IsWrite() bool {
	return a.Verb != "get" && a.Verb != "list" && a.Verb != "watch"
}

func (a *Action) String() string {
	s := fmt.Sprintf("#%d %s %s", a.Idx, a.Verb, a.Resource)
	if a.Subresource != "" {
		s += "/" + a.Subresource
	}
	s += " " + a.Namespace + "/" + a.Name
	if a.Verb == "list" {
		s += " sel=" + a.Selector
	}
	if a.Patch != nil {
		s += " patch=" + string(a.Patch)
	}
	if a.Err != nil {
		s += " err=" + a.Err.Error()
	}
	if a.Faulted {
		s += " [fault]"
	}
	return s
}

// rig is the long-lived part: clientsets, informer wrappers and the real controller. It is
// pooled because every controller built by the real constructor starts an event broadcaster
// whose goroutines cannot be stopped from outside.
type rig struct {
	kube *kubefake.Clientset
	pc   *pcfake.Clientset

	podInf coreinformers.PodInformer
	pvcInf coreinformers.PersistentVolumeClaimInformer
	revInf kubeappsinformers.ControllerRevisionInformer
	setInf asinformers.StatefulSetInformer

	ctrl        *statefulset.StatefulSetController
	podHandlers []cache.ResourceEventHandler
	setHandlers []cache.ResourceEventHandler

	cur *Cluster
}

var (
	poolMu sync.Mutex
	pool   []*rig
	// RigsBuilt counts controllers constructed by this process.
	RigsBuilt int
)

type capInformer struct {
	cache.SharedIndexInformer
	sink *[]cache.ResourceEventHandler
}

type fakeRegistration struct{}

func (fakeRegistration) HasSynced() bool { return true }

func (c *capInformer) AddEventHandler(h cache.ResourceEventHandler) (cache.ResourceEventHandlerRegistration, error) {
	*c.sink = append(*c.sink, h)
	return fakeRegistration{}, nil
}

type podInformerWrap struct {
	coreinformers.PodInformer
	r *rig
}

func (w podInformerWrap) Informer() cache.SharedIndexInformer {
	return &capInformer{SharedIndexInformer: w.PodInformer.Informer(), sink: &w.r.podHandlers}
}
func (w podInformerWrap) Lister() corelisters.PodLister {
	return &permPodLister{PodLister: w.PodInformer.Lister(), r: w.r}
}

type setInformerWrap struct {
	asinformers.StatefulSetInformer
	r *rig
}

func (w setInformerWrap) Informer() cache.SharedIndexInformer {
	return &capInformer{SharedIndexInformer: w.StatefulSetInformer.Informer(), sink: &w.r.setHandlers}
}

func (w setInformerWrap) Lister() aslisters.StatefulSetLister {
	return &noteSetLister{StatefulSetLister: w.StatefulSetInformer.Lister(), r: w.r}
}

// noteSetLister records every read of a set from the cache during a reconcile (which version the controller
// saw, and after how many API calls): a reconcile may look at its set more than once.
type noteSetLister struct {
	aslisters.StatefulSetLister
	r *rig
}

func (l *noteSetLister) StatefulSets(ns string) aslisters.StatefulSetNamespaceLister {
	return &noteSetNSLister{StatefulSetNamespaceLister: l.StatefulSetLister.StatefulSets(ns), r: l.r}
}

type noteSetNSLister struct {
	aslisters.StatefulSetNamespaceLister
	r *rig
}

func (l *noteSetNSLister) Get(name string) (*asv1.StatefulSet, error) {
	s, err := l.StatefulSetNamespaceLister.Get(name)
	if c := l.r.cur; c != nil && c.logging {
		sr := SetRead{AfterCalls: len(c.Log), Found: err == nil}
		if err == nil {
			sr.ResourceVersion = s.ResourceVersion
			sr.Paused = s.Annotations["paused-reconcile"] == "true"
			sr.Deleting = s.DeletionTimestamp != nil
		}
		c.setReads = append(c.setReads, sr)
	}
	return s, err
}

// SetRead is one read of the reconciled set from the cache.
type SetRead struct {
	AfterCalls      int // number of API calls the reconcile had made before
	Found           bool
	ResourceVersion string
	Paused          bool
	Deleting        bool
}

type pvcInformerWrap struct {
	coreinformers.PersistentVolumeClaimInformer
	r *rig
}

func (w pvcInformerWrap) Lister() corelisters.PersistentVolumeClaimLister {
	return &errPVCLister{PersistentVolumeClaimLister: w.PersistentVolumeClaimInformer.Lister(), r: w.r}
}

// permPodLister returns the cached pods sorted by name and then permuted by the cluster's drawn
// ListPerm value: the (map-order) nondeterminism of a real informer cache becomes a generated input.
type permPodLister struct {
	corelisters.PodLister
	r *rig
}

func (l *permPodLister) List(sel labels.Selector) ([]*corev1.Pod, error) {
	pods, err := l.PodLister.List(sel)
	l.r.cur.permute(pods)
	return pods, err
}
func (l *permPodLister) Pods(ns string) corelisters.PodNamespaceLister {
	return &permPodNSLister{PodNamespaceLister: l.PodLister.Pods(ns), r: l.r}
}

type permPodNSLister struct {
	corelisters.PodNamespaceLister
	r *rig
}

func (l *permPodNSLister) List(sel labels.Selector) ([]*corev1.Pod, error) {
	pods, err := l.PodNamespaceLister.List(sel)
	l.r.cur.permute(pods)
	l.r.cur.notePodList(pods)
	return pods, err
}

type errPVCLister struct {
	corelisters.PersistentVolumeClaimLister
	r *rig
}

func (l *errPVCLister) PersistentVolumeClaims(ns string) corelisters.PersistentVolumeClaimNamespaceLister {
	return &errPVCNSLister{PersistentVolumeClaimNamespaceLister: l.PersistentVolumeClaimLister.PersistentVolumeClaims(ns), r: l.r}
}

type errPVCNSLister struct {
	corelisters.PersistentVolumeClaimNamespaceLister
	r *rig
}

func (l *errPVCNSLister) Get(name string) (*corev1.PersistentVolumeClaim, error) {
	if f := l.r.cur.PVCListerHook; f != nil {
		if err := f(name); err != nil {
			l.r.cur.lookupFailed = true
			return nil, err
		}
	}
	return l.PersistentVolumeClaimNamespaceLister.Get(name)
}

func newRig() *rig {
	globalInit()
	r := &rig{kube: &kubefake.Clientset{}, pc: &pcfake.Clientset{}}
	reactor := func(a clienttesting.Action) (bool, runtime.Object, error) {
		return r.cur.react(a)
	}
	r.kube.AddReactor("*", "*", reactor)
	r.pc.AddReactor("*", "*", reactor)
	kf := kubeinformers.NewSharedInformerFactory(r.kube, 0)
	pf := pcinformers.NewSharedInformerFactory(r.pc, 0)
	r.podInf = kf.Core().V1().Pods()
	r.pvcInf = kf.Core().V1().PersistentVolumeClaims()
	r.revInf = kf.Apps().V1().ControllerRevisions()
	r.setInf = pf.Apps().V1().StatefulSets()
	r.buildController()
	return r
}

func (r *rig) buildController() {
	r.podHandlers, r.setHandlers = nil, nil
	r.ctrl = statefulset.NewStatefulSetController(
		podInformerWrap{r.podInf, r},
		setInformerWrap{r.setInf, r},
		pvcInformerWrap{r.pvcInf, r},
		r.revInf,
		r.kube, pcWrap{r.pc, r})
	// same kind of queue, but with a rate limiter that does not make the harness wait: the controller's
	// default combines a 5ms..1000s exponential per-item backoff with a 10 qps bucket shared by all items
	r.ctrl.VerifQueue().ShutDown()
	r.ctrl.VerifSetQueue(workqueue.NewNamedRateLimitingQueue(workqueue.NewItemExponentialFailureRateLimiter(time.Nanosecond, time.Microsecond), "statefulset"))
	poolMu.Lock()
	RigsBuilt++
	poolMu.Unlock()
}

// Every cluster gets a controller object of its own (and so does every simulated restart): whatever the
// controller remembers between reconciles was learnt in the running case, which keeps a replayed case
// faithful to the run that found it. A discarded controller's goroutines are stopped through the
// VerifShutdown hook.
func getRig() *rig { return nil }

func putRig(r *rig) {
	r.cur = nil
	r.ctrl.VerifShutdown()
}

// Cluster is one simulated cluster (API state + caches + one controller).
type Cluster struct {
	r *rig
	// WatchCacheReads counts GETs of the set that named a resourceVersion and were answered from the lagging copy
	WatchCacheReads int
	tracker         clienttesting.ObjectTracker
	objReact        clienttesting.ReactionFunc

	clock int64
	rv    int64
	uidN  int64
	// uidTag makes the UIDs of this cluster (and of its clones) unlike those of every other cluster of the process:
	// whatever the code under test remembers by UID at package level cannot leak from one case into the next
	uidTag int64

	logging   bool
	snapTaken bool
	snap      []*corev1.Pod
	Log       []*Action
	// AllWrites counts every non-event write since creation (diagnostics).
	callIdx int

	// Intercept, when set, is consulted before each logged API call.
	Intercept func(a *Action) *Fault
	// PVCListerHook can make the PVC cache lookup fail.
	PVCListerHook func(name string) error
	// ListPerm permutes pod cache listings (0 = sorted by name).
	ListPerm uint64
	// lookupFailed: PVCListerHook made a cache lookup fail during the running reconcile
	lookupFailed bool
	setReads     []SetRead

	// journal: every pod write since the pod cache last caught up with that pod, in order. A watch
	// delivers each of them; RefreshPod(notify) replays them through the registered handlers (a
	// handler compares old and new, so collapsing several writes into one can hide a wake-up).
	journal map[string][]podEvent
}

type podEvent struct {
	del bool
	pod *corev1.Pod
}

// jTracker records pod writes in the journal.
type jTracker struct {
	clienttesting.ObjectTracker
	c *Cluster
}

func (j *jTracker) note(ns, name string, del bool, old *corev1.Pod) {
	c := j.c
	if c.journal == nil {
		c.journal = map[string][]podEvent{}
	}
	key := ns + "/" + name
	ev := podEvent{del: del, pod: old}
	if !del {
		o, err := j.ObjectTracker.Get(GVRPods, ns, name)
		if err != nil {
			return
		}
		ev.pod = o.(*corev1.Pod)
	}
	if ev.pod == nil {
		return
	}
	if len(c.journal[key]) >= 512 {
		c.journal[key] = c.journal[key][1:] // lossy beyond this; RefreshPod falls back to a state comparison
	}
	c.journal[key] = append(c.journal[key], ev)
}

func (j *jTracker) Add(obj runtime.Object) error {
	err := j.ObjectTracker.Add(obj)
	if p, ok := obj.(*corev1.Pod); ok && err == nil {
		j.note(p.Namespace, p.Name, false, nil)
	}
	return err
}

func (j *jTracker) Create(gvr schema.GroupVersionResource, obj runtime.Object, ns string) error {
	err := j.ObjectTracker.Create(gvr, obj, ns)
	if p, ok := obj.(*corev1.Pod); ok && err == nil && gvr == GVRPods {
		j.note(ns, p.Name, false, nil)
	}
	return err
}

func (j *jTracker) Update(gvr schema.GroupVersionResource, obj runtime.Object, ns string) error {
	err := j.ObjectTracker.Update(gvr, obj, ns)
	if p, ok := obj.(*corev1.Pod); ok && err == nil && gvr == GVRPods {
		j.note(ns, p.Name, false, nil)
	}
	return err
}

func (j *jTracker) Delete(gvr schema.GroupVersionResource, ns, name string) error {
	var old *corev1.Pod
	if gvr == GVRPods {
		if o, err := j.ObjectTracker.Get(gvr, ns, name); err == nil {
			old, _ = o.(*corev1.Pod)
		}
	}
	err := j.ObjectTracker.Delete(gvr, ns, name)
	if err == nil && old != nil {
		j.note(ns, name, true, old)
	}
	return err
}

// PendingPodEvents lists the names (in ns) of pods with writes the pod cache has not been told about.
func (c *Cluster) PendingPodEvents(ns string) (out []string) {
	for k, evs := range c.journal {
		if len(evs) > 0 && strings.HasPrefix(k, ns+"/") {
			out = append(out, k[len(ns)+1:])
		}
	}
	sort.Strings(out)
	return
}

var clusterSeq int64

// New returns an empty cluster with a (pooled) controller whose caches are empty.
func New() *Cluster {
	r := getRig()
	if r == nil {
		r = newRig()
	}
	c := &Cluster{r: r, uidTag: atomic.AddInt64(&clusterSeq, 1)}
	r.cur = c
	c.tracker = &jTracker{ObjectTracker: clienttesting.NewObjectTracker(asscheme.Scheme, asscheme.Codecs.UniversalDecoder()), c: c}
	c.objReact = clienttesting.ObjectReaction(c.tracker)
	c.clearCaches()
	r.kube.ClearActions()
	r.pc.ClearActions()
	// drain queue left over from a previous user of the rig
	q := r.ctrl.VerifQueue()
	for q.Len() > 0 {
		k, _ := q.Get()
		q.Done(k)
		q.Forget(k)
	}
	return c
}

// Close returns the controller to the pool. The cluster must not be used afterwards.
func (c *Cluster) Close() {
	if c.r != nil {
		putRig(c.r)
		c.r = nil
	}
}

// Restart discards the controller and builds a brand new one with empty caches (a process
// restart). Call RefreshAll afterwards to model the initial list.
func (c *Cluster) Restart() {
	old := c.r
	nr := newRig()
	nr.cur = c
	c.r = nr
	c.journal = nil
	putRig(old)
}

func (c *Cluster) Ctrl() *statefulset.StatefulSetController  { return c.r.ctrl }
func (c *Cluster) Kube() *kubefake.Clientset                 { return c.r.kube }
func (c *Cluster) PC() *pcfake.Clientset                     { return c.r.pc }
func (c *Cluster) PodHandlers() []cache.ResourceEventHandler { return c.r.podHandlers }
func (c *Cluster) SetHandlers() []cache.ResourceEventHandler { return c.r.setHandlers }

func (c *Cluster) clearCaches() {
	c.r.podInf.Informer().GetIndexer().Replace(nil, "")
	c.r.pvcInf.Informer().GetIndexer().Replace(nil, "")
	c.r.setInf.Informer().GetIndexer().Replace(nil, "")
	c.r.revInf.Informer().GetIndexer().Replace(nil, "")
}

// notePodList remembers what the first pod listing of the running reconcile returned: that, not
// the cache content at the start of the reconcile, is the snapshot the reconcile acted on (the
// harness may refresh caches between two API calls of one reconcile).
func (c *Cluster) notePodList(pods []*corev1.Pod) {
	if !c.logging || c.snapTaken {
		return
	}
	c.snapTaken = true
	c.snap = nil
	for _, p := range pods {
		c.snap = append(c.snap, p.DeepCopy())
	}
	sort.Slice(c.snap, func(i, j int) bool { return c.snap[i].Name < c.snap[j].Name })
}

func (c *Cluster) permute(pods []*corev1.Pod) {
	sort.Slice(pods, func(i, j int) bool {
		if pods[i].Namespace != pods[j].Namespace {
			return pods[i].Namespace < pods[j].Namespace
		}
		return pods[i].Name < pods[j].Name
	})
	if c.ListPerm == 0 || len(pods) < 2 {
		return
	}
	// deterministic Fisher-Yates driven by a drawn value (splitmix64)
	x := c.ListPerm
	next := func() uint64 {
		x += 0x9e3779b97f4a7c15
		z := x
		z = (z ^ (z >> 30)) * 0xbf58476d1ce4e5b9
		z = (z ^ (z >> 27)) * 0x94d049bb133111eb
		return z ^ (z >> 31)
	}
	for i := len(pods) - 1; i > 0; i-- {
		j := int(next() % uint64(i+1))
		pods[i], pods[j] = pods[j], pods[i]
	}
}

// ---------------------------------------------------------------------------------------------
// logical time / identifiers

func (c *Cluster) Tick() metav1.Time {
	c.clock++
	return metav1.Unix(1600000000+c.clock, 0)
}

func (c *Cluster) nextRV() string {
	c.rv++
	return strconv.FormatInt(c.rv, 10)
}

func (c *Cluster) NewUID() types.UID {
	c.uidN++
	return types.UID(fmt.Sprintf("uid%d-%d", c.uidTag, c.uidN))
}

// ---------------------------------------------------------------------------------------------
// reactor: API-server semantics in front of the object tracker

func isNotFound(err error) bool { return apierrors.IsNotFound(err) }

func (c *Cluster) get(gvr schema.GroupVersionResource, ns, name string) runtime.Object {
	o, err := c.tracker.Get(gvr, ns, name)
	if err != nil {
		return nil
	}
	return o
}

func (c *Cluster) react(a clienttesting.Action) (bool, runtime.Object, error) {
	gvr := a.GetResource()
	if gvr.Resource == "events" {
		// the controller's event broadcaster writes asynchronously; accepted and ignored
		if ca, ok := a.(clienttesting.CreateActionImpl); ok {
			return true, ca.GetObject(), nil
		}
		if ua, ok := a.(clienttesting.UpdateActionImpl); ok {
			return true, ua.GetObject(), nil
		}
		return true, &corev1.Event{}, nil
	}
	act := &Action{
		Verb: a.GetVerb(), GVR: gvr, Resource: gvr.Resource, Subresource: a.GetSubresource(),
		Namespace: a.GetNamespace(),
	}
	switch t := a.(type) {
	case clienttesting.GetActionImpl:
		act.Name = t.GetName()
	case clienttesting.ListActionImpl:
		act.Selector = t.GetListRestrictions().Labels.String()
	case clienttesting.CreateActionImpl:
		act.Obj = t.GetObject().DeepCopyObject()
		if m, err := meta.Accessor(act.Obj); err == nil {
			act.Name = m.GetName()
		}
	case clienttesting.UpdateActionImpl:
		act.Obj = t.GetObject().DeepCopyObject()
		if m, err := meta.Accessor(act.Obj); err == nil {
			act.Name = m.GetName()
		}
	case clienttesting.DeleteActionImpl:
		act.Name = t.GetName()
		act.DeleteOpts = t.GetDeleteOptions()
	case clienttesting.PatchActionImpl:
		act.Name = t.GetName()
		act.Patch = append([]byte(nil), t.GetPatch()...)
		act.PatchType = t.GetPatchType()
	}
	act.Idx = c.callIdx
	c.callIdx++
	if c.logging {
		c.Log = append(c.Log, act)
	}
	var fault *Fault
	if c.Intercept != nil {
		fault = c.Intercept(act)
	}
	if act.Name != "" {
		if o := c.get(gvr, act.Namespace, act.Name); o != nil {
			act.Before = o
		}
	}
	if fault != nil && !fault.Apply {
		act.Faulted = true
		act.Err = fault.Err
		if fault.Crash {
			panic(crashSentinel{})
		}
		return true, nil, fault.Err
	}
	ret, err := c.execute(a, act)
	if fault != nil {
		act.Faulted = true
		act.Err = fault.Err
		if fault.Crash {
			panic(crashSentinel{})
		}
		return true, nil, fault.Err
	}
	act.Result, act.Err = ret, err
	return true, ret, err
}

func gr(gvr schema.GroupVersionResource) schema.GroupResource { return gvr.GroupResource() }

func tooManyControllers(refs []metav1.OwnerReference) bool {
	n := 0
	for _, r := range refs {
		if r.Controller != nil && *r.Controller {
			n++
		}
	}
	return n > 1
}

func (c *Cluster) execute(a clienttesting.Action, act *Action) (runtime.Object, error) {
	gvr := act.GVR
	ns := act.Namespace
	switch t := a.(type) {
	case clienttesting.ListActionImpl:
		_, obj, err := c.objReact(a)
		if err == nil && obj != nil {
			sortList(obj)
		}
		return obj, err
	case clienttesting.GetActionImpl:
		_, obj, err := c.objReact(a)
		return obj, err
	case clienttesting.CreateActionImpl:
		if t.GetSubresource() != "" {
			return nil, apierrors.NewMethodNotSupported(gr(gvr), "create/"+t.GetSubresource())
		}
		obj := t.GetObject().DeepCopyObject()
		m, err := meta.Accessor(obj)
		if err != nil {
			return nil, err
		}
		if m.GetName() == "" {
			return nil, apierrors.NewInvalid(schema.GroupKind{Group: gvr.Group, Kind: gvr.Resource}, "", nil)
		}
		if m.GetNamespace() == "" {
			m.SetNamespace(ns)
		}
		if c.get(gvr, ns, m.GetName()) != nil {
			return nil, apierrors.NewAlreadyExists(gr(gvr), m.GetName())
		}
		c.StampNew(obj)
		if err := c.tracker.Create(gvr, obj, ns); err != nil {
			return nil, err
		}
		return c.tracker.Get(gvr, ns, m.GetName())
	case clienttesting.UpdateActionImpl:
		obj := t.GetObject().DeepCopyObject()
		m, err := meta.Accessor(obj)
		if err != nil {
			return nil, err
		}
		old := c.get(gvr, ns, m.GetName())
		if old == nil {
			return nil, apierrors.NewNotFound(gr(gvr), m.GetName())
		}
		om, _ := meta.Accessor(old)
		if m.GetResourceVersion() != "" && m.GetResourceVersion() != om.GetResourceVersion() {
			return nil, apierrors.NewConflict(gr(gvr), m.GetName(), fmt.Errorf("the object has been modified; please apply your changes to the latest version and try again"))
		}
		if m.GetUID() != "" && m.GetUID() != om.GetUID() {
			return nil, apierrors.NewConflict(gr(gvr), m.GetName(), fmt.Errorf("Precondition failed: UID in precondition: %v, UID in object meta: %v", m.GetUID(), om.GetUID()))
		}
		newObj := c.mergeUpdate(gvr, t.GetSubresource(), old, obj)
		nm, _ := meta.Accessor(newObj)
		nm.SetResourceVersion(c.nextRV())
		if err := c.tracker.Update(gvr, newObj, ns); err != nil {
			return nil, err
		}
		return c.tracker.Get(gvr, ns, m.GetName())
	case clienttesting.DeleteActionImpl:
		old := c.get(gvr, ns, t.GetName())
		if old == nil {
			return nil, apierrors.NewNotFound(gr(gvr), t.GetName())
		}
		// preconditions, as the API server checks them
		if pre := t.GetDeleteOptions().Preconditions; pre != nil {
			if om, err := meta.Accessor(old); err == nil {
				if pre.UID != nil && *pre.UID != om.GetUID() {
					return nil, apierrors.NewConflict(gr(gvr), t.GetName(), fmt.Errorf("precondition failed: UID in precondition: %v, UID in object meta: %v", *pre.UID, om.GetUID()))
				}
				if pre.ResourceVersion != nil && *pre.ResourceVersion != om.GetResourceVersion() {
					return nil, apierrors.NewConflict(gr(gvr), t.GetName(), fmt.Errorf("precondition failed: resourceVersion in precondition: %v, in object meta: %v", *pre.ResourceVersion, om.GetResourceVersion()))
				}
			}
		}
		if pod, ok := old.(*corev1.Pod); ok {
			return nil, c.deletePod(pod)
		}
		return nil, c.tracker.Delete(gvr, ns, t.GetName())
	case clienttesting.PatchActionImpl:
		old := c.get(gvr, ns, t.GetName())
		if old == nil {
			return nil, apierrors.NewNotFound(gr(gvr), t.GetName())
		}
		om, _ := meta.Accessor(old)
		if uid, ok := patchUID(t.GetPatch()); ok && uid != string(om.GetUID()) {
			return nil, apierrors.NewInvalid(schema.GroupKind{Group: gvr.Group, Kind: gvr.Resource}, t.GetName(), nil)
		}
		_, obj, err := c.objReact(a)
		if err != nil {
			return nil, err
		}
		nm, _ := meta.Accessor(obj)
		if tooManyControllers(nm.GetOwnerReferences()) {
			// metadata validation: only one owner reference may have controller=true. The generic
			// reaction has already stored the patched object; put the old one back.
			if uerr := c.tracker.Update(gvr, old, ns); uerr != nil {
				return nil, uerr
			}
			return nil, apierrors.NewInvalid(schema.GroupKind{Group: gvr.Group, Kind: gvr.Resource}, t.GetName(), nil)
		}
		nm.SetResourceVersion(c.nextRV())
		if err := c.tracker.Update(gvr, obj, ns); err != nil {
			return nil, err
		}
		return c.tracker.Get(gvr, ns, t.GetName())
	}
	return nil, fmt.Errorf("sim: unsupported action %v", a)
}

// StampNew gives obj what an API server gives a created object.
func (c *Cluster) StampNew(obj runtime.Object) {
	m, _ := meta.Accessor(obj)
	m.SetUID(c.NewUID())
	m.SetResourceVersion(c.nextRV())
	m.SetCreationTimestamp(c.Tick())
	m.SetGeneration(1)
	m.SetDeletionTimestamp(nil)
	if pod, ok := obj.(*corev1.Pod); ok {
		if pod.Status.Phase == "" {
			pod.Status.Phase = corev1.PodPending
		}
	}
}

// mergeUpdate applies status-subresource semantics for the two StatefulSet kinds and bumps
// generation on spec changes.
func (c *Cluster) mergeUpdate(gvr schema.GroupVersionResource, sub string, old, in runtime.Object) runtime.Object {
	switch o := old.(type) {
	case *asv1.StatefulSet:
		n := in.(*asv1.StatefulSet)
		if sub == "status" {
			res := o.DeepCopy()
			res.Status = *n.Status.DeepCopy()
			return res
		}
		res := n.DeepCopy()
		res.Status = *o.Status.DeepCopy()
		keepImmutableMeta(&res.ObjectMeta, &o.ObjectMeta)
		if !specEqual(o.Spec, n.Spec) {
			res.Generation = o.Generation + 1
		}
		return res
	case *appsv1.StatefulSet:
		n := in.(*appsv1.StatefulSet)
		if sub == "status" {
			res := o.DeepCopy()
			res.Status = *n.Status.DeepCopy()
			return res
		}
		res := n.DeepCopy()
		res.Status = *o.Status.DeepCopy()
		keepImmutableMeta(&res.ObjectMeta, &o.ObjectMeta)
		if !specEqual(o.Spec, n.Spec) {
			res.Generation = o.Generation + 1
		}
		return res
	case *corev1.Pod:
		n := in.(*corev1.Pod)
		res := n.DeepCopy()
		if sub == "" {
			res.Status = *o.Status.DeepCopy()
		}
		keepImmutableMeta(&res.ObjectMeta, &o.ObjectMeta)
		return res
	default:
		res := in.DeepCopyObject()
		rm, _ := meta.Accessor(res)
		om, _ := meta.Accessor(old)
		rm.SetUID(om.GetUID())
		rm.SetCreationTimestamp(om.GetCreationTimestamp())
		rm.SetDeletionTimestamp(om.GetDeletionTimestamp())
		rm.SetGeneration(om.GetGeneration())
		return res
	}
}

func keepImmutableMeta(n, o *metav1.ObjectMeta) {
	n.UID = o.UID
	n.CreationTimestamp = o.CreationTimestamp
	n.DeletionTimestamp = o.DeletionTimestamp
	n.Generation = o.Generation
}

func specEqual(a, b interface{}) bool {
	return apiequality.Semantic.DeepEqual(a, b)
}

// patchUID extracts metadata.uid from a JSON patch body, if present.
func patchUID(patch []byte) (string, bool) {
	var p struct {
		Metadata struct {
			UID *string `json:"uid"`
		} `json:"metadata"`
	}
	if err := json.Unmarshal(patch, &p); err != nil || p.Metadata.UID == nil {
		return "", false
	}
	return *p.Metadata.UID, true
}

func (c *Cluster) deletePod(pod *corev1.Pod) error {
	// kube-apiserver: a pod that is not scheduled or already terminated (Failed/Succeeded) is deleted
	// with grace period 0, i.e. removed at once - also when it was already terminating
	if pod.Status.Phase == corev1.PodFailed || pod.Status.Phase == corev1.PodSucceeded || pod.Spec.NodeName == "" {
		return c.tracker.Delete(GVRPods, pod.Namespace, pod.Name)
	}
	if pod.DeletionTimestamp != nil {
		return nil // already terminating: accepted, nothing changes
	}
	p := pod.DeepCopy()
	ts := c.Tick()
	p.DeletionTimestamp = &ts
	p.ResourceVersion = c.nextRV()
	return c.tracker.Update(GVRPods, p, p.Namespace)
}

func sortList(list runtime.Object) {
	items, err := meta.ExtractList(list)
	if err != nil {
		return
	}
	sort.SliceStable(items, func(i, j int) bool {
		a, _ := meta.Accessor(items[i])
		b, _ := meta.Accessor(items[j])
		if a.GetNamespace() != b.GetNamespace() {
			return a.GetNamespace() < b.GetNamespace()
		}
		return a.GetName() < b.GetName()
	})
	_ = meta.SetList(list, items)
}
