// Package model holds the reference models. They are written from the property statements,
// not from the code under test.
package model

import (
	"regexp"
	"sort"
	"strconv"
)

// Desired returns the desired ordinals for r replicas and the given slots: walk i = 0,1,2,…
// taking i iff i is not a slot, until r are taken ("each member is the least non-negative
// integer that is neither a slot nor already taken").
func Desired(r int, slots map[int]bool) []int {
	out := make([]int, 0, r)
	for i := 0; len(out) < r; i++ {
		if !slots[i] {
			out = append(out, i)
		}
	}
	return out
}

func DesiredSet(r int, slots map[int]bool) map[int]bool {
	m := map[int]bool{}
	for _, i := range Desired(r, slots) {
		m[i] = true
	}
	return m
}

// Bound returns max(Desired)+1 (0 if empty): the effective range [0,bound).
func Bound(r int, slots map[int]bool) int {
	d := Desired(r, slots)
	if len(d) == 0 {
		return 0
	}
	return d[len(d)-1] + 1
}

// EffectiveSlots = slots ∩ [0,bound).
func EffectiveSlots(r int, slots map[int]bool) []int {
	b := Bound(r, slots)
	var out []int
	for s := range slots {
		if s >= 0 && s < b {
			out = append(out, s)
		}
	}
	sort.Ints(out)
	return out
}

var podNameRe = regexp.MustCompile(`^(.*)-([0-9]+)$`)

// ParsePodName splits "<parent>-<digits>" (greedy parent, as "the name is S-<ordinal>").
// ok is false when the name has no such shape or the number does not fit in int32.
func ParsePodName(name string) (parent string, ordinal int, ok bool) {
	m := podNameRe.FindStringSubmatch(name)
	if m == nil {
		return "", -1, false
	}
	n, err := strconv.ParseInt(m[2], 10, 32)
	if err != nil {
		return m[1], -1, false
	}
	return m[1], int(n), true
}

// Canonical reports whether name is exactly "<set>-<decimal without leading zeros>".
func Canonical(set, name string) (int, bool) {
	parent, ord, ok := ParsePodName(name)
	if !ok || parent != set {
		return -1, false
	}
	if name != set+"-"+strconv.Itoa(ord) {
		return ord, false
	}
	return ord, true
}
