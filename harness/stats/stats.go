// Package stats collects per-case classification for the evidence files: how many cases were
// generated, how many distinct ones were non-trivial by the property's stated rule, a label
// histogram describing what the generator actually produced, and a few samples.
package stats

import (
	"encoding/json"
	"fmt"
	"hash/fnv"
	"os"
	"sort"
	"sync"
)

type Rec struct {
	mu          sync.Mutex
	Property    string
	Evaluations int
	Nontrivial  int
	fps         map[uint64]struct{}
	Labels      map[string]int
	Samples     []interface{}
	KnownHits   map[string]int
	Excluded    map[string]int
	Extra       map[string]interface{}
	sampleSeen  int
}

func New(property string) *Rec {
	return &Rec{Property: property, fps: map[uint64]struct{}{}, Labels: map[string]int{}, KnownHits: map[string]int{}, Excluded: map[string]int{}, Extra: map[string]interface{}{}}
}

func Hash(s string) uint64 {
	h := fnv.New64a()
	h.Write([]byte(s))
	return h.Sum64()
}

// Case records one generated case. fp is a canonical rendering of the case (or of the part of it
// that the non-triviality rule is about); it is hashed.
func (r *Rec) Case(fp string, nontrivial bool) {
	r.mu.Lock()
	defer r.mu.Unlock()
	r.Evaluations++
	if nontrivial {
		r.Nontrivial++
		r.fps[Hash(fp)] = struct{}{}
	}
}

func (r *Rec) Label(l string) {
	r.mu.Lock()
	r.Labels[l]++
	r.mu.Unlock()
}

func (r *Rec) LabelN(l string, n int) {
	r.mu.Lock()
	r.Labels[l] += n
	r.mu.Unlock()
}

func (r *Rec) Known(sig string) {
	r.mu.Lock()
	r.KnownHits[sig]++
	r.mu.Unlock()
}

func (r *Rec) Exclude(reason string) {
	r.mu.Lock()
	r.Excluded[reason]++
	r.mu.Unlock()
}

func (r *Rec) SetExtra(k string, v interface{}) {
	r.mu.Lock()
	r.Extra[k] = v
	r.mu.Unlock()
}

func (r *Rec) AddExtra(k string, n int) {
	r.mu.Lock()
	cur, _ := r.Extra[k].(int)
	r.Extra[k] = cur + n
	r.mu.Unlock()
}

// Sample keeps the 1st, 2nd, 4th, 8th … offered sample (at most 12), so samples come from the
// whole run and not only from its (small, simple) beginning.
func (r *Rec) Sample(f func() interface{}) {
	r.mu.Lock()
	defer r.mu.Unlock()
	r.sampleSeen++
	n := r.sampleSeen
	if n&(n-1) != 0 || len(r.Samples) >= 12 {
		return
	}
	r.Samples = append(r.Samples, f())
}

type File struct {
	Property    string                 `json:"property"`
	Evaluations int                    `json:"evaluations"`
	Nontrivial  int                    `json:"nontrivial"`
	FPs         []string               `json:"fps"`
	Labels      map[string]int         `json:"labels"`
	Samples     []interface{}          `json:"samples"`
	KnownHits   map[string]int         `json:"known_hits"`
	Excluded    map[string]int         `json:"excluded"`
	Extra       map[string]interface{} `json:"extra"`
}

func (r *Rec) Dump(path string) error {
	r.mu.Lock()
	defer r.mu.Unlock()
	f := File{Property: r.Property, Evaluations: r.Evaluations, Nontrivial: r.Nontrivial, Labels: r.Labels,
		Samples: r.Samples, KnownHits: r.KnownHits, Excluded: r.Excluded, Extra: r.Extra}
	for fp := range r.fps {
		f.FPs = append(f.FPs, fmt.Sprintf("%016x", fp))
	}
	sort.Strings(f.FPs)
	b, err := json.Marshal(f)
	if err != nil {
		return err
	}
	tmp := path + ".tmp"
	if err := os.WriteFile(tmp, b, 0o644); err != nil {
		return err
	}
	return os.Rename(tmp, path)
}
