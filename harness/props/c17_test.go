package props

import (
	"context"
	"encoding/json"
	"fmt"
	"k8s.io/client-go/kubernetes"
	typedappsv1 "k8s.io/client-go/kubernetes/typed/apps/v1"
	"regexp"
	"sort"
	"strings"
	"testing"

	appsv1 "k8s.io/api/apps/v1"
	corev1 "k8s.io/api/core/v1"
	apiequality "k8s.io/apimachinery/pkg/api/equality"
	apierrors "k8s.io/apimachinery/pkg/api/errors"
	metav1 "k8s.io/apimachinery/pkg/apis/meta/v1"
	"k8s.io/apimachinery/pkg/types"
	"pgregory.net/rapid"

	asv1 "github.com/pingcap/advanced-statefulset/client/apis/apps/v1"
	"github.com/pingcap/advanced-statefulset/client/apis/apps/v1/helper"

	"verifharness/sim"
)

// C17 — upgrade from a built-in StatefulSet never loses pods and survives interruption.

type C17Case struct {
	SelKeys int  `json:"sel_keys"` // 1..3 matchLabels keys
	SelExpr bool `json:"sel_expr"` // plus a matchExpressions requirement
	Revs    int  `json:"revs"`     // 0..5 revisions of the set
	// OrphanMask: bit i set = revision i matches the selector but has no owner (left behind by an orphaning
	// delete + re-create of the built-in set, not yet adopted): still a revision of the set
	OrphanMask int `json:"orphan_mask,omitempty"`
	// LaggingCache: the newest revision of the set is not yet in the API server's watch cache: a list that allows a
	// cached answer (resourceVersion "0") does not show it, a consistent list does
	LaggingCache bool `json:"lagging_cache,omitempty"`
	// ManyRevs: Revs is beyond one hundred
	ManyRevs bool `json:"many_revs,omitempty"`
	// Collision: the built-in set's status.collisionCount (nil when 0 is drawn with HasCollision false)
	HasCollision bool  `json:"has_collision,omitempty"`
	Collision    int32 `json:"collision,omitempty"`
	Unrelated    int   `json:"unrelated"` // revisions of somebody else
	Pods         int   `json:"pods"`
	Claims       int   `json:"claims"`
	PreExists    int   `json:"pre_exists"` // 0 no Advanced object, 1 one with the same spec, 2 one with a different spec, 3 one whose spec has additional keys and optional fields
	Replicas     int32 `json:"replicas"`
	Partition    int32 `json:"partition"`
	Positions    []int `json:"positions"`
	All          bool  `json:"all"`
	Retries      int   `json:"retries"`     // how many attempts get a fault (1..3)
	SecondKind   int   `json:"second_kind"` // fault kind for the later faulted attempts
}

func (c C17Case) Summary() interface{} { return c }

var c17Kinds = []int{FServerError, FTimeoutLost, FTimeoutApplied, FCrashBefore, FCrashAfter, FConflict, FNotFound}

func genC17(rt *rapid.T) C17Case {
	c := C17Case{
		SelKeys:   rapid.IntRange(1, 3).Draw(rt, "selKeys"),
		SelExpr:   rapid.IntRange(0, 3).Draw(rt, "selExpr") == 0,
		Revs:      rapid.IntRange(0, 5).Draw(rt, "revs"),
		Unrelated: rapid.IntRange(0, 2).Draw(rt, "unrelated"),
		Pods:      rapid.IntRange(0, 3).Draw(rt, "pods"),
		Claims:    rapid.IntRange(0, 2).Draw(rt, "claims"),
		PreExists: rapid.SampledFrom([]int{0, 0, 1, 2, 3}).Draw(rt, "preExists"),
		Replicas:  int32(rapid.IntRange(0, 3).Draw(rt, "replicas")),
		Partition: int32(rapid.IntRange(0, 2).Draw(rt, "partition")),
		All:       thorough(),
		Retries:   rapid.IntRange(1, 3).Draw(rt, "retries"),
	}
	c.LaggingCache = rapid.IntRange(0, 3).Draw(rt, "laggingCache") == 0
	if rapid.IntRange(0, 2).Draw(rt, "hasCollision") == 0 {
		c.HasCollision = true
		c.Collision = int32(rapid.IntRange(0, 3).Draw(rt, "collision"))
	}
	if rapid.IntRange(0, 2).Draw(rt, "orphanRevs") == 0 {
		c.OrphanMask = rapid.IntRange(1, 31).Draw(rt, "orphanMask")
	}
	if !c.All {
		for i := 0; i < 4; i++ {
			c.Positions = append(c.Positions, rapid.IntRange(0, 999).Draw(rt, "pos"))
		}
	}
	c.SecondKind = rapid.SampledFrom(c17Kinds).Draw(rt, "secondKind")
	if rapid.IntRange(0, 24).Draw(rt, "manyRevs") == 0 {
		// a long history (revisionHistoryLimit is the user's to set): more revisions than a chunked list returns at once
		c.ManyRevs = true
		c.Revs = 101 + rapid.IntRange(0, 40).Draw(rt, "manyRevsN")
		c.All = false
		c.Positions = []int{rapid.IntRange(0, 999).Draw(rt, "manyPos")}
		c.Retries = 1
	}
	return c
}

type c17Violation struct{ sig, msg string }

func (w *c17World) deferViolation(sig, format string, args ...interface{}) {
	w.viol = append(w.viol, c17Violation{sig, fmt.Sprintf(format, args...)})
}

// laggingKube (always in front of Upgrade): honours limit/continue on ControllerRevision lists, and is a clientset whose ControllerRevision lists served "from the watch cache" (resourceVersion "0") miss
// one object that consistent lists show. The fake clientset does not hand list options to reactors, so the typed
// client is wrapped.
type laggingKube struct {
	kubernetes.Interface
	hide string
}

func (k laggingKube) AppsV1() typedappsv1.AppsV1Interface {
	return laggingApps{k.Interface.AppsV1(), k.hide}
}

type laggingApps struct {
	typedappsv1.AppsV1Interface
	hide string
}

func (a laggingApps) ControllerRevisions(ns string) typedappsv1.ControllerRevisionInterface {
	return laggingRevs{a.AppsV1Interface.ControllerRevisions(ns), a.hide}
}

type laggingRevs struct {
	typedappsv1.ControllerRevisionInterface
	hide string
}

func (r laggingRevs) List(ctx context.Context, opts metav1.ListOptions) (*appsv1.ControllerRevisionList, error) {
	inner := opts
	inner.Limit, inner.Continue = 0, ""
	l, err := r.ControllerRevisionInterface.List(ctx, inner)
	if err != nil {
		return l, err
	}
	out := l.DeepCopy()
	if opts.ResourceVersion == "0" && r.hide != "" {
		out.Items = nil
		for _, it := range l.Items {
			if it.Name != r.hide {
				out.Items = append(out.Items, it)
			}
		}
	}
	// limit / continue as an API server serves them (the fake clientset ignores both): chunks in name order, a continue
	// token while more remain, and remainingItemCount only for requests without a selector
	if opts.Limit > 0 {
		sort.Slice(out.Items, func(i, j int) bool { return out.Items[i].Name < out.Items[j].Name })
		from := 0
		if opts.Continue != "" {
			if _, err := fmt.Sscanf(opts.Continue, "offset-%d", &from); err != nil || from > len(out.Items) {
				return nil, apierrors.NewBadRequest("invalid continue token")
			}
		}
		rest := out.Items[from:]
		if int64(len(rest)) > opts.Limit {
			out.Items = rest[:opts.Limit]
			out.Continue = fmt.Sprintf("offset-%d", from+int(opts.Limit))
			if opts.LabelSelector == "" && opts.FieldSelector == "" {
				n := int64(len(rest)) - opts.Limit
				out.RemainingItemCount = &n
			}
		} else {
			out.Items = rest
		}
	}
	return out, nil
}

type c17World struct {
	lagging  string // name of the revision the watch cache does not hold yet
	viol     []c17Violation
	c        *sim.Cluster
	sel      map[string]string
	revNames []string
	want     *asv1.StatefulSet // the converted object the helper must create
}

func buildC17(cs C17Case) *c17World {
	c := sim.New()
	w := &c17World{c: c, sel: map[string]string{}}
	for i := 0; i < cs.SelKeys; i++ {
		w.sel[[]string{"app", "tier", "zone"}[i]] = []string{"web", "db", "a"}[i]
	}
	tmplLabels := map[string]string{"extra": "x"}
	for k, v := range w.sel {
		tmplLabels[k] = v
	}
	part := cs.Partition
	sts := &appsv1.StatefulSet{
		TypeMeta:   metav1.TypeMeta{Kind: "StatefulSet", APIVersion: "apps/v1"},
		ObjectMeta: metav1.ObjectMeta{Name: "web", Namespace: NS, Labels: map[string]string{"l": "v"}, Annotations: map[string]string{"a": "b"}},
		Spec: appsv1.StatefulSetSpec{
			Replicas:    &cs.Replicas,
			Selector:    &metav1.LabelSelector{MatchLabels: w.sel},
			ServiceName: "svc",
			Template: corev1.PodTemplateSpec{ObjectMeta: metav1.ObjectMeta{Labels: tmplLabels},
				Spec: corev1.PodSpec{Containers: []corev1.Container{{Name: "c", Image: "img:1"}}}},
			UpdateStrategy: appsv1.StatefulSetUpdateStrategy{Type: appsv1.RollingUpdateStatefulSetStrategyType,
				RollingUpdate: &appsv1.RollingUpdateStatefulSetStrategy{Partition: &part}},
		},
		Status: appsv1.StatefulSetStatus{Replicas: cs.Replicas, ReadyReplicas: cs.Replicas, CurrentRevision: "web-r0", UpdateRevision: "web-r0", ObservedGeneration: 1},
	}
	if cs.HasCollision {
		cc := cs.Collision
		sts.Status.CollisionCount = &cc
	}
	if cs.SelExpr {
		sts.Spec.Selector.MatchExpressions = []metav1.LabelSelectorRequirement{{Key: "extra", Operator: metav1.LabelSelectorOpExists}}
	}
	if cs.LaggingCache && cs.Revs > 0 {
		w.lagging = fmt.Sprintf("web-r%d", cs.Revs-1)
	}
	stored := c.Put(sts).(*appsv1.StatefulSet)
	tr := true
	owner := []metav1.OwnerReference{{APIVersion: "apps/v1", Kind: "StatefulSet", Name: "web", UID: stored.UID, Controller: &tr, BlockOwnerDeletion: &tr}}
	for i := 0; i < cs.Revs; i++ {
		lbl := map[string]string{"controller.kubernetes.io/hash": fmt.Sprint(i)}
		for k, v := range tmplLabels {
			lbl[k] = v
		}
		name := fmt.Sprintf("web-r%d", i)
		own := owner
		if cs.OrphanMask&(1<<uint(i)) != 0 {
			own = nil
		}
		c.Put(&appsv1.ControllerRevision{ObjectMeta: metav1.ObjectMeta{Name: name, Namespace: NS, Labels: lbl, OwnerReferences: own}, Revision: int64(i + 1)})
		w.revNames = append(w.revNames, name)
	}
	for i := 0; i < cs.Unrelated; i++ {
		c.Put(&appsv1.ControllerRevision{ObjectMeta: metav1.ObjectMeta{Name: fmt.Sprintf("other-r%d", i), Namespace: NS, Labels: map[string]string{"app": "somethingelse", "extra": "x"}}, Revision: 1})
	}
	for i := 0; i < cs.Pods; i++ {
		c.Put(&corev1.Pod{ObjectMeta: metav1.ObjectMeta{Name: fmt.Sprintf("web-%d", i), Namespace: NS, Labels: tmplLabels, OwnerReferences: owner},
			Spec: corev1.PodSpec{NodeName: "node", Containers: []corev1.Container{{Name: "c", Image: "img:1"}}}, Status: corev1.PodStatus{Phase: corev1.PodRunning}})
	}
	for i := 0; i < cs.Claims; i++ {
		c.Put(&corev1.PersistentVolumeClaim{ObjectMeta: metav1.ObjectMeta{Name: fmt.Sprintf("data-web-%d", i), Namespace: NS, Labels: w.sel}})
	}
	if cs.PreExists > 0 {
		pre, _ := helper.FromBuiltinStatefulSet(stored)
		pre.UID, pre.ResourceVersion = "", ""
		pre.Status = asv1.StatefulSetStatus{}
		if cs.PreExists == 2 {
			r := int32(9)
			pre.Spec.Replicas = &r
			pre.Spec.ServiceName = "old"
		}
		if cs.PreExists == 3 {
			// a spec with MORE in it than the built-in one has: map keys and optional fields that "same spec" has to remove
			t := &pre.Spec.Template
			if t.Annotations == nil {
				t.Annotations = map[string]string{}
			}
			t.Annotations["left-over"] = "yes"
			t.Spec.NodeSelector = map[string]string{"disk": "ssd"}
			t.Spec.PriorityClassName = "old-priority"
			part := int32(2)
			pre.Spec.UpdateStrategy = asv1.StatefulSetUpdateStrategy{Type: asv1.RollingUpdateStatefulSetStrategyType, RollingUpdate: &asv1.RollingUpdateStatefulSetStrategy{Partition: &part}}
			if pre.Spec.Selector != nil && pre.Spec.Selector.MatchLabels != nil {
				pre.Spec.Selector.MatchLabels["era"] = "old"
				t.Labels["era"] = "old"
			}
		}
		c.Put(pre)
	}
	// what the Advanced object must look like, computed by the harness itself (a JSON round trip into the Advanced
	// type: the two types share their wire format), not by the conversion helper under test
	w.want = &asv1.StatefulSet{}
	if j, err := json.Marshal(stored); err == nil {
		_ = json.Unmarshal(j, w.want)
	}
	w.want.APIVersion, w.want.Kind = "apps.pingcap.com/v1", "StatefulSet"
	return w
}

func (w *c17World) untouched() string {
	var b strings.Builder
	for _, p := range w.c.Pods() {
		fmt.Fprintf(&b, "%s/%s/%s ", p.Name, p.UID, p.ResourceVersion)
	}
	for _, p := range w.c.PVCs() {
		fmt.Fprintf(&b, "%s/%s/%s ", p.Name, p.UID, p.ResourceVersion)
	}
	for _, r := range w.c.Revs() {
		if strings.HasPrefix(r.Name, "other-") {
			fmt.Fprintf(&b, "%s/%s/%s ", r.Name, r.UID, r.ResourceVersion)
		}
	}
	return b.String()
}

func (w *c17World) finalState() string {
	var parts []string
	for _, s := range w.c.BuiltinSets() {
		parts = append(parts, "builtin:"+s.Name)
	}
	for _, s := range w.c.Sets() {
		parts = append(parts, fmt.Sprintf("advanced:%s spec=%v status=%v labels=%v ann=%v", s.Name,
			apiequality.Semantic.DeepEqual(s.Spec, w.want.Spec), apiequality.Semantic.DeepEqual(s.Status, w.want.Status), s.Labels, s.Annotations))
	}
	for _, r := range w.c.Revs() {
		parts = append(parts, fmt.Sprintf("rev:%s labels=%s owner=%s", r.Name, mapString(r.Labels), ownerString(r.OwnerReferences)))
	}
	sort.Strings(parts)
	// the two runs compared live in two simulated clusters, whose UIDs carry different tags
	return uidTagRe.ReplaceAllString(strings.Join(parts, "\n"), "uid-")
}

var uidTagRe = regexp.MustCompile(`uid[0-9]+-`)

func mapString(m map[string]string) string {
	ks := make([]string, 0, len(m))
	for k := range m {
		ks = append(ks, k)
	}
	sort.Strings(ks)
	var b strings.Builder
	for _, k := range ks {
		fmt.Fprintf(&b, "%s=%s,", k, m[k])
	}
	return b.String()
}

func ownerString(refs []metav1.OwnerReference) string {
	var b strings.Builder
	for _, r := range refs {
		fmt.Fprintf(&b, "%s/%s/%s,", r.Kind, r.Name, r.UID)
	}
	return b.String()
}

// monitor judges the write log of one Upgrade attempt.
func (w *c17World) monitor(rep Rep, actions []*sim.Action, desc string) {
	for _, a := range actions {
		if !a.IsWrite() {
			continue
		}
		switch {
		case a.Resource == "pods" || a.Resource == "persistentvolumeclaims":
			rep.Violate("upgrade/touches-"+a.Resource, "%s: the upgrade helper issued %s", desc, a)
		case a.Resource == "controllerrevisions" && strings.HasPrefix(a.Name, "other-"):
			rep.Violate("upgrade/touches-unrelated-revision", "%s: the upgrade helper issued %s", desc, a)
		case a.Resource == "controllerrevisions" && a.Verb != "update":
			rep.Violate("upgrade/revision-"+a.Verb, "%s: the upgrade helper issued %s", desc, a)
		case a.Resource == "statefulsets" && a.GVR.Group == "apps" && a.Verb == "delete":
			if a.DeleteOpts.PropagationPolicy == nil || *a.DeleteOpts.PropagationPolicy != metav1.DeletePropagationOrphan {
				rep.Violate("upgrade/delete-without-orphan-propagation", "%s: the built-in set was deleted with propagation policy %v (its pods would be garbage collected)", desc, a.DeleteOpts.PropagationPolicy)
			}
			// state at the moment of the delete = current API state (the log is replayed synchronously below)
		case a.Resource == "statefulsets" && a.GVR.Group == "apps":
			rep.Violate("upgrade/builtin-"+a.Verb, "%s: the upgrade helper issued %s on the built-in set", desc, a)
		}
	}
}

// checkAtDelete is called from the interceptor right before a delete of the built-in set executes.
// It runs inside the API reactor (under the code being tested), so it only records what it finds;
// attempt() raises the violations once the helper has returned.
func (w *c17World) checkAtDelete(desc string) {
	defer func() { recover() }() // a nil Advanced set is recorded first; later dereferences must not escape
	as := w.c.Set(NS, "web")
	if as == nil {
		w.deferViolation("upgrade/builtin-deleted-before-advanced-exists", "%s: the built-in StatefulSet is being deleted but no Advanced StatefulSet named web exists", desc)
	}
	if !apiequality.Semantic.DeepEqual(as.Spec, w.want.Spec) {
		w.deferViolation("upgrade/builtin-deleted-before-spec-copied", "%s: the built-in set is being deleted but the Advanced set's spec differs at %s", desc, explain(w.want.Spec, as.Spec))
	}
	if !apiequality.Semantic.DeepEqual(as.Status, w.want.Status) {
		w.deferViolation("upgrade/builtin-deleted-before-status-copied", "%s: the built-in set is being deleted but the Advanced set's status differs at %s", desc, explain(w.want.Status, as.Status))
	}
	for _, name := range w.revNames {
		r := w.c.Rev(NS, name)
		if r == nil {
			continue // removed by an injected not-found interference
		}
		for k := range w.sel {
			if _, has := r.Labels[k]; has {
				w.deferViolation("upgrade/builtin-deleted-with-selector-label-left", "%s: the built-in set is being deleted but revision %s still carries selector label %s (it would be re-adopted and garbage collected)", desc, name, k)
			}
		}
		if r.Labels["apps.pingcap.com/upgrade-to-asts"] != "web" {
			w.deferViolation("upgrade/builtin-deleted-with-unmarked-revision", "%s: the built-in set is being deleted but revision %s lacks the upgrade marker", desc, name)
		}
	}
}

// attempt runs one Upgrade call the way a caller would (fresh GET first) with an optional fault.
func (w *c17World) attempt(rep Rep, faultAt, kind int, desc string) (done bool, calls int, err error) {
	c := w.c
	var cur *appsv1.StatefulSet
	for _, s := range c.BuiltinSets() {
		if s.Name == "web" {
			cur = s
		}
	}
	if cur == nil {
		return true, 0, nil
	}
	n := 0
	c.Intercept = func(a *sim.Action) *sim.Fault {
		n++
		var f *sim.Fault
		if faultAt > 0 && n == faultAt {
			switch kind {
			case FServerError:
				f = &sim.Fault{Err: apierrors.NewInternalError(fmt.Errorf("injected"))}
			case FTimeoutLost:
				f = &sim.Fault{Err: apierrors.NewTimeoutError("injected (not applied)", 1)}
			case FTimeoutApplied:
				f = &sim.Fault{Err: apierrors.NewTimeoutError("injected (applied)", 1), Apply: true}
			case FCrashBefore:
				f = &sim.Fault{Crash: true}
			case FCrashAfter:
				f = &sim.Fault{Crash: true, Apply: true}
			case FConflict:
				if a.Verb == "delete" && a.Resource == "statefulsets" && a.GVR.Group == "apps" {
					// the still-running built-in controller writes the set's status just before the delete: a delete that
					// carries a resourceVersion precondition then meets a conflict (one without does not care)
					for _, b := range c.BuiltinSets() {
						if b.Namespace == a.Namespace && b.Name == a.Name {
							if b.Annotations == nil {
								b.Annotations = map[string]string{}
							}
							b.Annotations["touched"] = "by-the-still-running-built-in-controller"
							c.Put(b)
						}
					}
				}
				if a.Verb == "update" && a.Name != "" {
					switch a.Resource {
					case "controllerrevisions":
						if r := c.Rev(a.Namespace, a.Name); r != nil {
							if r.Annotations == nil {
								r.Annotations = map[string]string{}
							}
							r.Annotations["touched"] = "by-the-still-running-built-in-controller"
							c.Put(r)
						}
					case "statefulsets":
						if a.GVR.Group == "apps.pingcap.com" {
							c.UpdateSet(a.Namespace, a.Name, func(x *asv1.StatefulSet) {
								if x.Labels == nil {
									x.Labels = map[string]string{}
								}
								x.Labels["touched"] = "yes"
							})
						}
					}
				}
			case FNotFound:
				if a.Name != "" && a.Verb != "create" && a.Verb != "list" && !(a.Resource == "statefulsets" && a.GVR.Group == "apps" && a.Verb != "delete") {
					c.Remove(a.GVR, a.Namespace, a.Name)
				}
			}
		}
		if f == nil || f.Apply {
			if a.Resource == "statefulsets" && a.GVR.Group == "apps" && a.Verb == "delete" {
				if w.c.BuiltinSets() != nil {
					w.checkAtDelete(desc)
				}
			}
		}
		return f
	}
	actions, crashed, panicked, stack := c.RunLogged(func() {
		var kube kubernetes.Interface = c.Kube()
		kube = laggingKube{Interface: kube, hide: w.lagging}
		_, err = helper.Upgrade(context.TODO(), kube, c.PC(), cur)
	})
	c.Intercept = nil
	for _, v := range w.viol {
		rep.Violate(v.sig, "%s", v.msg)
	}
	if panicked != nil {
		rep.Violate("upgrade/panic", "%s: Upgrade panicked: %v\n%s", desc, panicked, stack)
	}
	w.monitor(rep, actions, desc)
	if crashed {
		err = fmt.Errorf("crashed")
	}
	return false, len(actions), err
}

func runC17(rep Rep, cs C17Case) {
	rep.SkipOuter()
	// uninterrupted twin
	twin := buildC17(cs)
	defer twin.c.Close()
	before := twin.untouched()
	_, N, err := twin.attempt(rep, 0, 0, "uninterrupted run")
	if err != nil {
		rep.Violate("upgrade/uninterrupted-run-failed", "Upgrade failed without any fault: %v", err)
	}
	if len(twin.c.BuiltinSets()) != 0 {
		rep.Violate("upgrade/builtin-still-present", "uninterrupted Upgrade returned success but the built-in set still exists")
	}
	if twin.untouched() != before {
		rep.Violate("upgrade/touched-pods-claims-or-unrelated-revisions", "pods, claims or unrelated revisions changed: %s -> %s", before, twin.untouched())
	}
	wantFinal := twin.finalState()
	firstWrite := 1
	var positions []int
	if cs.All {
		for k := 1; k <= N; k++ {
			positions = append(positions, k)
		}
	} else {
		seen := map[int]bool{}
		for _, p := range cs.Positions {
			k := 1 + p%N
			if !seen[k] {
				seen[k] = true
				positions = append(positions, k)
			}
		}
	}
	// calls 1 is the revision list: the first write is call 2 when there are revisions
	if cs.Revs > 0 {
		firstWrite = 2
	} else {
		firstWrite = 2 // get advanced set is call 2, create/update is 3
	}
	for _, k := range positions {
		for _, kind := range c17Kinds {
			w := buildC17(cs)
			func() {
				defer w.c.Close()
				b0 := w.untouched()
				desc := fmt.Sprintf("fault %s at call %d of %d, %d faulted attempt(s)", faultNames[kind], k, N, cs.Retries)
				rep.Sub(fmt.Sprintf("%v|%d|%d", worldFPAny(cs), k, kind), k >= firstWrite && cs.Revs >= 2)
				rep.Label("fault:" + faultNames[kind])
				done := false
				for attempt := 0; attempt < 12 && !done; attempt++ {
					fa, fk := 0, 0
					if attempt == 0 {
						fa, fk = k, kind
					} else if attempt < cs.Retries {
						fa, fk = 1+(k+attempt)%N, cs.SecondKind
					}
					var err error
					done, _, err = w.attempt(rep, fa, fk, desc)
					if !done && err == nil && len(w.c.BuiltinSets()) == 0 {
						done = true
					}
				}
				if !done {
					rep.Violate("upgrade/does-not-terminate", "%s: 12 attempts did not complete the upgrade\n%s", desc, w.c.Dump())
				}
				if w.untouched() != b0 {
					rep.Violate("upgrade/touched-pods-claims-or-unrelated-revisions", "%s: pods, claims or unrelated revisions changed: %s -> %s", desc, b0, w.untouched())
				}
				removedByInterference := kind == FNotFound || (cs.Retries > 1 && cs.SecondKind == FNotFound)
				touchedByInterference := kind == FConflict || (cs.Retries > 1 && cs.SecondKind == FConflict)
				if got := w.finalState(); got != wantFinal && !removedByInterference && !touchedByInterference {
					rep.Violate("upgrade/final-state-differs", "%s: final state\n%s\nuninterrupted run ends in\n%s", desc, got, wantFinal)
				}
				// whatever happened: selected revisions that still exist are relabelled, the Advanced set mirrors the built-in one
				as := w.c.Set(NS, "web")
				if as == nil || !apiequality.Semantic.DeepEqual(as.Spec, w.want.Spec) || !apiequality.Semantic.DeepEqual(as.Status, w.want.Status) {
					rep.Violate("upgrade/advanced-set-wrong-at-the-end", "%s: after the upgrade completed the Advanced set is %v", desc, as)
				}
				for _, name := range w.revNames {
					if r := w.c.Rev(NS, name); r != nil {
						for key := range w.sel {
							if _, has := r.Labels[key]; has {
								rep.Violate("upgrade/completed-with-selector-label-left", "%s: upgrade completed but revision %s still carries selector label %s", desc, name, key)
							}
						}
						if r.Labels["apps.pingcap.com/upgrade-to-asts"] != "web" {
							rep.Violate("upgrade/completed-with-unmarked-revision", "%s: upgrade completed but revision %s lacks the upgrade marker", desc, name)
						}
					}
				}
			}()
		}
	}
}

func TestC17(t *testing.T)        { checkCases(t, "C17", genC17, runC17) }
func TestRegressC17(t *testing.T) { regress(t, "C17", runC17) }

var _ = types.UID("")
