package props

import (
	"context"
	"fmt"
	"runtime"
	"strings"
	"sync"
	"sync/atomic"
	"testing"
	"time"

	appsv1 "k8s.io/api/apps/v1"
	apiequality "k8s.io/apimachinery/pkg/api/equality"
	metav1 "k8s.io/apimachinery/pkg/apis/meta/v1"
	k8sruntime "k8s.io/apimachinery/pkg/runtime"
	utilruntime "k8s.io/apimachinery/pkg/util/runtime"
	"k8s.io/apimachinery/pkg/watch"
	kubefake "k8s.io/client-go/kubernetes/fake"
	clienttesting "k8s.io/client-go/testing"
	"pgregory.net/rapid"

	asv1 "github.com/pingcap/advanced-statefulset/client/apis/apps/v1"
	"github.com/pingcap/advanced-statefulset/client/apis/apps/v1/helper"
	pcfake "github.com/pingcap/advanced-statefulset/client/client/clientset/versioned/fake"

	"verifharness/sim"
)

// C20 — the hijacked watch relays everything, survives error events, shuts down cleanly.
// The harness owns both ends: the source watch (buffered channel, counted idempotent Stop) and the
// consumer. The only asynchronous party is the relay goroutine under test; every wait on it has a
// generous deadline and a synchronous witness (its parked stack frame) for the verdict.

type C20Op struct {
	// K: 0 source sends an event, 1 consumer receives one, 2 consumer calls Stop, 3 source closes its channel
	K       int    `json:"k"`
	Type    string `json:"type,omitempty"`
	Payload int    `json:"payload,omitempty"` // 0..2 a StatefulSet variant, 3 *metav1.Status, 4 bookmark-style set (only resourceVersion), 5 bookmark with the initial-events-end annotation, 6 a set with metadata, annotations and status filled in
}

type C20Case struct {
	Ops []C20Op `json:"ops"`
}

func (c C20Case) Summary() interface{} {
	var s []string
	for _, o := range c.Ops {
		switch o.K {
		case 0:
			s = append(s, fmt.Sprintf("send(%s,%d)", o.Type, o.Payload))
		case 1:
			s = append(s, "recv")
		case 2:
			s = append(s, "Stop")
		case 3:
			s = append(s, "sourceClose")
		}
	}
	return s
}

func genC20(rt *rapid.T) C20Case {
	n := rapid.IntRange(1, 20).Draw(rt, "nops")
	var c C20Case
	for i := 0; i < n; i++ {
		o := C20Op{K: rapid.SampledFrom([]int{0, 0, 0, 0, 1, 1, 1, 2, 3}).Draw(rt, "op")}
		if o.K == 0 {
			o.Type = rapid.SampledFrom([]string{"ADDED", "MODIFIED", "DELETED", "BOOKMARK", "ERROR"}).Draw(rt, "evType")
			switch o.Type {
			case "ERROR":
				o.Payload = 3
			case "BOOKMARK":
				// a bookmark carries a resourceVersion, possibly annotations (the API server marks the end of the initial
				// events of a watch-list with one), and nothing forbids a full object
				o.Payload = rapid.SampledFrom([]int{4, 4, 5, 5, 6, 1}).Draw(rt, "bookmarkPayload")
			default:
				o.Payload = rapid.SampledFrom([]int{0, 1, 2, 6}).Draw(rt, "payload")
			}
		}
		c.Ops = append(c.Ops, o)
	}
	return c
}

type srcWatch struct {
	ch     chan watch.Event
	stops  int32
	closed int32
	mu     sync.Mutex
}

func (s *srcWatch) Stop() {
	atomic.AddInt32(&s.stops, 1)
	s.closeCh()
	// tearing down a real streaming source takes a moment, and by then the relay has noticed that its source is
	// gone: give it that moment, so that whatever it does on its way out overlaps with the caller's Stop
	for i := 0; i < 3; i++ {
		runtime.Gosched()
	}
	time.Sleep(100 * time.Microsecond)
}
func (s *srcWatch) closeCh() {
	s.mu.Lock()
	defer s.mu.Unlock()
	if s.closed == 0 {
		s.closed = 1
		close(s.ch)
	}
}
func (s *srcWatch) ResultChan() <-chan watch.Event { return s.ch }
func (s *srcWatch) send(e watch.Event) bool {
	s.mu.Lock()
	defer s.mu.Unlock()
	if s.closed != 0 || len(s.ch) == cap(s.ch) {
		return false
	}
	s.ch <- e
	return true
}

func c20Payload(i int) k8sruntime.Object {
	switch i {
	case 3:
		return &metav1.Status{Status: metav1.StatusFailure, Reason: metav1.StatusReasonGone, Code: 410, Message: "too old resource version"}
	case 4:
		return &asv1.StatefulSet{ObjectMeta: metav1.ObjectMeta{ResourceVersion: "12345"}}
	case 5:
		return &asv1.StatefulSet{ObjectMeta: metav1.ObjectMeta{ResourceVersion: "12346", Annotations: map[string]string{"k8s.io/initial-events-end": "true"}}}
	case 6:
		s := baseSet(NS, "web-rich", 3)
		s.ResourceVersion, s.Generation, s.UID = "777", 4, "uid-rich"
		s.Labels = map[string]string{"team": "db"}
		s.Annotations = map[string]string{"delete-slots": "[1]", "note": "x"}
		s.Finalizers = []string{"example.com/hold"}
		s.Status = asv1.StatefulSetStatus{ObservedGeneration: 4, Replicas: 3, ReadyReplicas: 2, CurrentRevision: "web-rich-1", UpdateRevision: "web-rich-2"}
		return s
	}
	s := baseSet(NS, fmt.Sprintf("web-%d", i), int32(i))
	s.ResourceVersion = fmt.Sprint(100 + i)
	s.Status.Replicas = int32(i)
	return s
}

func relayParked() (bool, string) {
	buf := make([]byte, 1<<20)
	n := runtime.Stack(buf, true)
	for _, g := range strings.Split(string(buf[:n]), "\n\n") {
		// any goroutine still running code of the helper package: the relay itself or a companion it started
		if strings.Contains(g, "advanced-statefulset/client/apis/apps/v1/helper.") {
			return true, g
		}
	}
	return false, ""
}

var c20PanicMu sync.Mutex
var c20Panics []interface{}

func init() {
	utilruntime.PanicHandlers = append(utilruntime.PanicHandlers, func(r interface{}) {
		c20PanicMu.Lock()
		c20Panics = append(c20Panics, r)
		c20PanicMu.Unlock()
	})
}

const c20Deadline = 10 * time.Second

func runC20(rep Rep, c C20Case) {
	sim.Init()
	utilruntime.ReallyCrash = false // a panic in the relay goroutine is recorded instead of killing the test process (in production it kills the client)
	c20PanicMu.Lock()
	c20Panics = nil
	c20PanicMu.Unlock()

	src := &srcWatch{ch: make(chan watch.Event, 64)}
	pc := &pcfake.Clientset{}
	pc.AddWatchReactor("*", func(clienttesting.Action) (bool, watch.Interface, error) { return true, src, nil })
	hc := helper.NewHijackClient(&kubefake.Clientset{}, pc)
	w, err := hc.AppsV1().StatefulSets(NS).Watch(context.TODO(), metav1.ListOptions{})
	if err != nil {
		rep.Violate("watch/open-failed", "Watch returned %v", err)
	}
	var pending []watch.Event // sent, not yet received (expected, already translated)
	stopped, srcClosed := false, false
	hasError, stopWithPending := false, false
	checkPanic := func(where string) {
		c20PanicMu.Lock()
		defer c20PanicMu.Unlock()
		if len(c20Panics) > 0 {
			rep.Violate("relay/panic", "%s: the relay goroutine panicked: %v (in production this terminates the process)", where, c20Panics[0])
		}
	}
	expect := func(got watch.Event, where string) {
		if len(pending) == 0 {
			rep.Violate("relay/invented-event", "%s: received %v although nothing was pending", where, got.Type)
		}
		want := pending[0]
		pending = pending[1:]
		if got.Type != want.Type {
			rep.Violate("relay/wrong-type", "%s: received event type %s, sent %s", where, got.Type, want.Type)
		}
		if !apiequality.Semantic.DeepEqual(got.Object, want.Object) {
			rep.Violate("relay/wrong-object", "%s: received object %#v, expected %#v", where, got.Object, want.Object)
		}
	}
	for i, o := range c.Ops {
		where := fmt.Sprintf("op %d", i)
		switch o.K {
		case 0:
			if stopped || srcClosed {
				continue
			}
			obj := c20Payload(o.Payload)
			if !src.send(watch.Event{Type: watch.EventType(o.Type), Object: obj}) {
				continue
			}
			want := watch.Event{Type: watch.EventType(o.Type), Object: obj}
			if a, ok := obj.(*asv1.StatefulSet); ok {
				b, cerr := helper.ToBuiltinStatefulSet(a)
				if cerr != nil {
					rep.Violate("convert/failed", "ToBuiltinStatefulSet: %v", cerr)
				}
				want.Object = b
			}
			if o.Type == "ERROR" {
				hasError = true
			}
			pending = append(pending, want)
		case 1:
			if len(pending) == 0 || stopped {
				continue
			}
			select {
			case ev, ok := <-w.ResultChan():
				checkPanic(where)
				if !ok {
					rep.Violate("relay/closed-with-events-pending", "%s: result channel closed while %d sent events were never delivered and neither Stop nor source close happened=%v", where, len(pending), srcClosed)
				}
				expect(ev, where)
			case <-time.After(c20Deadline):
				checkPanic(where)
				rep.Violate("relay/event-not-delivered", "%s: a sent event was not delivered within %v", where, c20Deadline)
			}
		case 2:
			if len(pending) > 0 && !stopped {
				stopWithPending = true
			}
			w.Stop()
			w.Stop() // idempotent
			stopped = true
		case 3:
			src.closeCh()
			srcClosed = true
		}
	}
	checkPanic("after ops")
	// shutdown: make sure one of the two endings happened, then the channel must close and the relay exit
	if !stopped && !srcClosed {
		if len(c.Ops)%2 == 0 {
			w.Stop()
			stopped = true
		} else {
			src.closeCh()
			srcClosed = true
		}
	}
	if stopped {
		// a consumer that has called Stop is entitled to stop reading: the relay must come down on its
		// own. Wait for it WITHOUT draining the result channel; a relay still parked in a channel send
		// after the deadline is the leak (its stack frame is the synchronous witness).
		end := time.Now().Add(c20Deadline)
		for {
			parked, frame := relayParked()
			if !parked {
				break
			}
			if time.Now().After(end) {
				sig := "shutdown/relay-left-behind-after-stop"
				if strings.Contains(frame, "chan send") {
					sig = "shutdown/relay-blocked-in-send-after-stop"
				}
				rep.Violate(sig, "%v after Stop (consumer not reading any more) the relay goroutine is still alive and the result channel open:\n%s", c20Deadline, frame)
			}
			time.Sleep(200 * time.Microsecond)
		}
	}
	deadline := time.After(c20Deadline)
	closedOK := false
drain:
	for {
		select {
		case ev, ok := <-w.ResultChan():
			if !ok {
				closedOK = true
				break drain
			}
			// events still in flight may arrive; they must continue the sent sequence
			expect(ev, "drain")
		case <-deadline:
			break drain
		}
	}
	checkPanic("shutdown")
	if !closedOK {
		parked, frame := relayParked()
		if parked {
			rep.Violate("shutdown/relay-blocked-result-never-closed", "after Stop/source close the result channel was not closed within %v; the relay goroutine is parked:\n%s", c20Deadline, frame)
		}
		rep.Violate("shutdown/result-never-closed", "after Stop/source close the result channel was not closed within %v", c20Deadline)
	}
	if srcClosed && !stopped && len(pending) > 0 {
		rep.Violate("relay/events-lost-at-source-close", "the source closed after sending; %d events were never delivered although the consumer kept reading", len(pending))
	}
	end := time.Now().Add(c20Deadline)
	for {
		parked, frame := relayParked()
		if !parked {
			break
		}
		if time.Now().After(end) {
			rep.Violate("shutdown/goroutine-left-behind", "the relay goroutine is still alive %v after the result channel closed:\n%s", c20Deadline, frame)
		}
		time.Sleep(time.Millisecond)
	}
	if atomic.LoadInt32(&src.stops) < 1 {
		rep.Violate("shutdown/source-not-stopped", "the underlying watch's Stop was never called")
	}
	rep.FP(worldFPAny(c))
	if hasError {
		rep.Label("has-error-event")
	}
	if stopWithPending {
		rep.Label("stop-with-unreceived-events")
	}
	if hasError || stopWithPending {
		rep.Nontrivial()
	}
}

func TestC20(t *testing.T)        { checkCases(t, "C20", genC20, runC20) }
func TestRegressC20(t *testing.T) { regress(t, "C20", runC20) }

var _ = appsv1.SchemeGroupVersion
