package props

import (
	"fmt"
	"testing"

	corev1 "k8s.io/api/core/v1"
	"pgregory.net/rapid"

	"verifharness/model"
	"verifharness/sim"
)

// C06 — stable identity and storage per ordinal; claims come first and are never removed.

func genC06(rt *rapid.T) World {
	o := histOpts
	o.maxOps = 30
	o.constructed = 3
	o.interference = false
	o.faults = false
	o.weights = opWeights{OpReconcile: 10, OpKubelet: 5, OpSettle: 4, OpEditReplicas: 3, OpScaleInAt: 4, OpEditSlotRemove: 3, OpEditSlotAdd: 1, OpRefreshAll: 1, OpUserDeletePod: 1, OpEditTemplate: 1, OpClaimRemove: 2, OpClaimLost: 2}
	w := genWorld(rt, o)
	w.Spec.Claims = rapid.SampledFrom([]int{0, 1, 1, 2, 2, 3}).Draw(rt, "claims06")
	w.Spec.SelExpr = rapid.IntRange(0, 4).Draw(rt, "selExpr") == 0
	w.Spec.SelExtra = rapid.SampledFrom([]int{0, 0, 1, 2, 3}).Draw(rt, "selExtra")
	w.Spec.TemplateVolumes = rapid.SampledFrom([]int{0, 0, 1}).Draw(rt, "templateVolumes")
	w.Spec.ClaimLabels = rapid.Bool().Draw(rt, "claimLabels")
	w.Spec.Service = rapid.SampledFrom([]string{"", "svc", "headless-svc"}).Draw(rt, "service")
	if w.Spec.Claims > 0 && rapid.IntRange(0, 7).Draw(rt, "digitNameHighOrdinals") == 0 {
		// a set whose name ends in a digit, with its ordinals pushed into two digits by a block of delete slots
		w.Spec.Name = rapid.SampledFrom([]string{"web-1", "db1", "tikv-2"}).Draw(rt, "digitName")
		w.Spec.Slots = nil
		for k := int32(0); k < 10; k++ {
			w.Spec.Slots = append(w.Spec.Slots, k)
		}
		w.Spec.R = int32(rapid.IntRange(3, 5).Draw(rt, "digitNameReplicas"))
		w.Pods = nil
		rt.Logf("digit name %s", w.Spec.Name)
	}
	if rapid.IntRange(0, 3).Draw(rt, "orphanRecreate") == 0 {
		// orphaning delete + re-creation with another governing service / claim list, then an ordinal is created again
		seq := []Op{{K: OpReconcile}, {K: OpSetRecreate, A: 1, B: 100 + rapid.IntRange(0, 2).Draw(rt, "orcKind")},
			{K: OpUserDeletePod, A: rapid.IntRange(0, 20).Draw(rt, "orcPod")}, {K: OpSettle}, {K: OpEditReplicas, A: rapid.IntRange(0, 20).Draw(rt, "orcRepl")}, {K: OpSettle}}
		at := 0
		if len(w.Ops) > 0 && rapid.Bool().Draw(rt, "orcLater") {
			at = rapid.IntRange(0, len(w.Ops)).Draw(rt, "orcAt")
		}
		w.Ops = append(w.Ops[:at:at], append(seq, w.Ops[at:]...)...)
	}
	for i := range w.Ops {
		if w.Ops[i].K == OpReconcile && rapid.IntRange(0, 3).Draw(rt, "claimFault") == 0 {
			w.Ops[i].PVCFault = rapid.IntRange(1, 6).Draw(rt, "pvcFault")
			w.Ops[i].PVCIdx = rapid.IntRange(0, 3).Draw(rt, "pvcIdx")
		}
	}
	return w
}

func monC06(rep Rep, v *View, s *Sys, claimUID map[string]string) (creates int, faultHit bool) {
	set := v.Set
	faulted := map[string]bool{}
	for _, n := range s.PVCFaulted {
		faulted[n] = true
	}
	exists := map[string]*corev1.PersistentVolumeClaim{}
	for _, c := range v.Rec.PVCsBefore {
		if c.Namespace == set.Namespace {
			exists[c.Name] = c
		}
	}
	failedClaim := map[string]bool{}
	for _, a := range v.Rec.Actions {
		switch {
		case a.Resource == "persistentvolumeclaims" && a.IsWrite():
			if a.Verb != "create" {
				rep.Violate("claims/"+a.Verb, "the controller issued %s on a claim: %s%s", a.Verb, a, ctx(v))
			}
			if a.Err != nil {
				failedClaim[a.Name] = true
			}
			if res, ok := a.Result.(*corev1.PersistentVolumeClaim); ok && a.Err == nil {
				exists[a.Name] = res
			} else if a.Faulted {
				if c := s.C.PVC(set.Namespace, a.Name); c != nil {
					exists[a.Name] = c // applied although reported as failed
				}
			}
		case a.Resource == "pods" && a.Verb == "create":
			creates++
			pod, _ := a.Obj.(*corev1.Pod)
			if pod == nil {
				continue
			}
			ord, ok := model.Canonical(set.Name, pod.Name)
			if !ok {
				rep.Violate("identity/name", "created pod %q is not %s-<ordinal>%s", pod.Name, set.Name, ctx(v))
			}
			if pod.Namespace != "" && pod.Namespace != set.Namespace {
				rep.Violate("identity/namespace", "pod %s created in namespace %q%s", pod.Name, pod.Namespace, ctx(v))
			}
			if pod.Spec.Hostname != pod.Name {
				rep.Violate("identity/hostname", "pod %s has hostname %q%s", pod.Name, pod.Spec.Hostname, ctx(v))
			}
			if pod.Spec.Subdomain != set.Spec.ServiceName {
				rep.Violate("identity/subdomain", "pod %s has subdomain %q, governing service %q%s", pod.Name, pod.Spec.Subdomain, set.Spec.ServiceName, ctx(v))
			}
			if pod.Labels["statefulset.kubernetes.io/pod-name"] != pod.Name {
				rep.Violate("identity/pod-name-label", "pod %s has pod-name label %q%s", pod.Name, pod.Labels["statefulset.kubernetes.io/pod-name"], ctx(v))
			}
			rev := podRev(pod)
			img, known := v.RevImage[rev]
			if rev == "" || !known {
				rep.Violate("identity/revision-label", "pod %s carries revision label %q which names no stored revision%s", pod.Name, rev, ctx(v))
			}
			if len(pod.Spec.Containers) > 0 && pod.Spec.Containers[0].Image != img {
				rep.Violate("identity/revision-label-template", "pod %s labelled %q (image %q) but built with %q%s", pod.Name, rev, img, pod.Spec.Containers[0].Image, ctx(v))
			}
			if t := v.RevTemplate[rev]; t != nil {
				if d := podBuiltFrom(pod, t); d != "" {
					rep.Violate("identity/revision-label-template", "pod %s labelled %q, but it is not that revision's template: %s%s", pod.Name, rev, d, ctx(v))
				}
			}
			nctl := 0
			for _, r := range pod.OwnerReferences {
				if r.Controller != nil && *r.Controller {
					nctl++
					if r.UID != set.UID || r.Kind != "StatefulSet" || r.Name != set.Name || r.APIVersion != "apps.pingcap.com/v1" {
						rep.Violate("identity/owner-reference", "pod %s has controller reference %+v, want apps.pingcap.com/v1 StatefulSet %s uid %s%s", pod.Name, r, set.Name, set.UID, ctx(v))
					}
				}
			}
			if nctl != 1 {
				rep.Violate("identity/owner-reference", "pod %s has %d controller references%s", pod.Name, nctl, ctx(v))
			}
			vols := map[string]corev1.Volume{}
			for _, vol := range pod.Spec.Volumes {
				vols[vol.Name] = vol
			}
			for _, ct := range set.Spec.VolumeClaimTemplates {
				want := fmt.Sprintf("%s-%s-%d", ct.Name, set.Name, ord)
				vol, ok := vols[ct.Name]
				if !ok || vol.PersistentVolumeClaim == nil || vol.PersistentVolumeClaim.ClaimName != want {
					rep.Violate("storage/volume", "pod %s: volume for claim template %q should be bound to claim %q, got %+v%s", pod.Name, ct.Name, want, vol.VolumeSource, ctx(v))
				}
				if failedClaim[want] || (faulted[want] && s.lastPVCFaultKind == 3) {
					faultHit = true
					rep.Violate("storage/pod-created-after-claim-failure", "pod %s was created although the lookup/creation of its claim %s failed in this reconcile%s", pod.Name, want, ctx(v))
				}
				claim := exists[want]
				if claim == nil {
					// a claim somebody deleted a moment ago may still be in the controller's cache: it then has no way of
					// knowing (and the claim it saw is the one to compare identities with)
					for _, cc := range v.Rec.CachePVCs {
						if cc.Namespace == set.Namespace && cc.Name == want && s.RemovedClaims[want] {
							claim = cc
							rep.Label("claim-deleted-by-user-still-cached")
						}
					}
				}
				if claim == nil {
					rep.Violate("storage/claim-missing-at-pod-create", "pod %s was created before its claim %s exists%s", pod.Name, want, ctx(v))
				}
				if set.Spec.Selector != nil {
					for k, val := range set.Spec.Selector.MatchLabels {
						if claim.Labels[k] != val {
							rep.Violate("storage/claim-labels", "claim %s lacks selector label %s=%s (labels %v)%s", want, k, val, claim.Labels, ctx(v))
						}
					}
				}
				// (a claim the user deleted at some point may legitimately come back as a new object)
				if old, ok := claimUID[want]; ok && old != string(claim.UID) && !s.RemovedClaims[want] {
					rep.Violate("storage/claim-replaced", "ordinal %d came back with a different claim object %s (uid %s -> %s)%s", ord, want, old, claim.UID, ctx(v))
				}
				claimUID[want] = string(claim.UID)
			}
		}
	}
	if len(failedClaim) > 0 || (len(s.PVCFaulted) > 0 && s.lastPVCFaultKind == 3) {
		faultHit = true
		if v.Rec.Err == nil {
			rep.Violate("storage/claim-failure-swallowed", "a claim lookup/creation failed (%v %v) but the reconcile reported success%s", keys(failedClaim), s.PVCFaulted, ctx(v))
		}
	}
	return
}

func runC06(rep Rep, w World) {
	claimUID := map[string]string{}
	nt := false
	cycles := map[int]int{}
	s := BuildWorld(rep, &w)
	defer s.Close()
	for _, c := range s.C.PVCs() {
		claimUID[c.Name] = string(c.UID)
	}
	s.OnRecord = func(r *sim.Record, op *Op) {
		if r.Panic != nil {
			rep.Violate("panic", "reconcile panicked: %v\n%s", r.Panic, r.Stack)
		}
		s.lastPVCFaultKind = op.PVCFault
		v := NewView(r)
		if v == nil {
			return
		}
		creates, fh := monC06(rep, v, s, claimUID)
		if creates > 0 && len(v.Set.Spec.VolumeClaimTemplates) > 0 {
			for _, pa := range v.PodActs() {
				if pa.Create && pa.A.Err == nil {
					cycles[pa.Ord]++
					if cycles[pa.Ord] >= 2 {
						nt = true
						rep.Label("ordinal-created-again-with-claims")
					}
				}
			}
		}
		if fh {
			nt = true
			rep.Label("claim-failure-injected-and-hit")
		}
	}
	for i := range w.Ops {
		s.Run(&w.Ops[i])
	}
	// claims are never removed
	have := map[string]bool{}
	for _, c := range s.C.PVCs() {
		have[c.Name] = true
	}
	for name := range claimUID {
		if !have[name] && !s.RemovedClaims[name] {
			rep.Violate("claims/disappeared", "claim %s no longer exists at the end of the history\n%s", name, s.Transcript())
		}
	}
	rep.FP(worldFP(w))
	if nt {
		rep.Nontrivial()
	}
}

func TestC06(t *testing.T)        { checkCases(t, "C06", genC06, runC06) }
func TestRegressC06(t *testing.T) { regress(t, "C06", runC06) }
