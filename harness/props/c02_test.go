package props

import (
	"fmt"
	"testing"

	corev1 "k8s.io/api/core/v1"
	metav1 "k8s.io/apimachinery/pkg/apis/meta/v1"
	"k8s.io/apimachinery/pkg/labels"
	"pgregory.net/rapid"

	asv1 "github.com/pingcap/advanced-statefulset/client/apis/apps/v1"

	"verifharness/model"
	"verifharness/sim"
)

// C02 — convergence and quiescence; also the fixed-point census of C12.

func closingBudget(s *Sys) int {
	set := s.Set()
	r, slots := 0, 0
	if set != nil {
		r = int(*set.Spec.Replicas)
		slots = len(parseSlots(set))
	}
	return 4*(len(s.C.PodsIn(NS))+r+slots+9) + 16
}

// fixedPointOracle checks the state reached by the closing schedule. census additionally demands
// that the four status counters are an exact census (C12).
func fixedPointOracle(rep Rep, s *Sys, checkQuiet bool) {
	set := s.Set()
	if set == nil {
		return
	}
	slots := parseSlots(set)
	r := int(*set.Spec.Replicas)
	D := model.DesiredSet(r, slots)
	pods := s.C.PodsIn(NS)
	seen := map[int]bool{}
	updRev, curRev := set.Status.UpdateRevision, set.Status.CurrentRevision
	image := set.Spec.Template.Spec.Containers[0].Image
	revImg := map[string]string{}
	for _, rv := range s.C.Revs() {
		revImg[rv.Name] = revImage(rv)
	}
	if revImg[updRev] != image {
		rep.Violate("fixpoint/update-revision-not-template", "status.updateRevision %q records image %q, template has %q\n%s", updRev, revImg[updRev], image, s.Transcript())
	}
	partition := 0
	ru := set.Spec.UpdateStrategy
	if ru.RollingUpdate != nil && ru.RollingUpdate.Partition != nil {
		partition = int(*ru.RollingUpdate.Partition)
	}
	nReady, nCur, nUpd := 0, 0, 0
	sel, _ := metav1.LabelSelectorAsSelector(set.Spec.Selector)
	for _, p := range pods {
		ord, ok := model.Canonical(s.Name, p.Name)
		if !ok {
			continue
		}
		if ref := metav1.GetControllerOf(p); (ref != nil && ref.UID != set.UID) || (ref == nil && sel != nil && !sel.Matches(labels.Set(p.Labels))) {
			continue // somebody else's pod that happens to carry such a name: no member, nothing the set may touch
		}
		if !isControlledBy(p.OwnerReferences, set.UID) {
			rep.Violate("fixpoint/pod-not-controlled", "pod %s is not controlled by the set at the fixed point\n%s", p.Name, s.Transcript())
		}
		if !D[ord] {
			rep.Violate("fixpoint/extra-pod", "pod %s outside the desired ordinals %v survives the fixed point\n%s", p.Name, sortedInts(D), s.Transcript())
		}
		seen[ord] = true
		if p.DeletionTimestamp != nil || p.Status.Phase != corev1.PodRunning || !sim.IsReady(p) {
			rep.Violate("fixpoint/pod-not-ready", "pod %s is not Running+Ready at the fixed point\n%s", p.Name, s.Transcript())
		}
		nReady++
		if podRev(p) == curRev {
			nCur++
		}
		if podRev(p) == updRev {
			nUpd++
		}
		if ru.Type == "RollingUpdate" && ord >= partition && revImg[podRev(p)] != image {
			rep.Violate("fixpoint/pod-outdated", "pod %s (ordinal >= partition %d) is at revision %q (image %q), template has %q\n%s", p.Name, partition, podRev(p), revImg[podRev(p)], image, s.Transcript())
		}
	}
	for i := range D {
		if !seen[i] {
			rep.Violate("fixpoint/missing-pod", "desired ordinal %d has no pod at the fixed point (desired %v)\n%s", i, sortedInts(D), s.Transcript())
		}
	}
	st := set.Status
	if int(st.Replicas) != r || int(st.ReadyReplicas) != r {
		rep.Violate("fixpoint/status-replicas", "status.replicas=%d readyReplicas=%d, spec.replicas=%d\n%s", st.Replicas, st.ReadyReplicas, r, s.Transcript())
	}
	if ru.Type == "RollingUpdate" && partition == 0 && curRev != updRev {
		rep.Violate("fixpoint/rollout-not-completed", "partition 0, all pods updated, but currentRevision %q != updateRevision %q\n%s", curRev, updRev, s.Transcript())
	}
	// census (C12)
	if int(st.Replicas) != len(seen) || int(st.ReadyReplicas) != nReady || int(st.CurrentReplicas) != nCur || int(st.UpdatedReplicas) != nUpd {
		rep.Violate("fixpoint/census", "status {replicas=%d ready=%d current=%d updated=%d} but the live pods are {total=%d ready=%d atCurrent=%d atUpdate=%d}\n%s",
			st.Replicas, st.ReadyReplicas, st.CurrentReplicas, st.UpdatedReplicas, len(seen), nReady, nCur, nUpd, s.Transcript())
	}
	if st.ObservedGeneration < set.Generation || (st.ObservedGeneration > set.Generation && !s.statusRestored) {
		rep.Violate("fixpoint/observed-generation", "observedGeneration=%d generation=%d at the fixed point\n%s", st.ObservedGeneration, set.Generation, s.Transcript())
	}
	if checkQuiet {
		for i := 0; i < 2; i++ {
			rr := s.Reconcile(&Op{K: OpReconcile, Perm: uint64(i * 77)})
			if n := len(rr.Writes()); n > 0 || rr.Err != nil {
				rep.Violate("fixpoint/not-quiet", "a reconcile at the fixed point issued %d writes (err=%v)\n%s", n, rr.Err, s.Transcript())
			}
		}
	}
}

// closeAndCheck runs the closing schedule and the fixed-point oracle; it returns false when the
// fairness premise of the property is false for this run (counted, not a violation).
func closeAndCheck(rep Rep, s *Sys) bool {
	set := s.Set()
	if set == nil {
		return false
	}
	if set.DeletionTimestamp != nil || set.Annotations["paused-reconcile"] == "true" {
		rep.Label("closing:set-deleting-or-paused(skipped)")
		return false
	}
	B := closingBudget(s)
	// a pod that occupies the name of a desired ordinal but can never be a member (its labels do not match, or it
	// belongs to another controller): the name is taken, the set cannot get there and says so on every reconcile.
	// Such a run gets a short closing schedule (enough for a controller that wrongly settles), not the full budget.
	squatted := nameTaken(s, set)
	if squatted && B > 12 {
		B = 12
		s.queueBurst = 4 // (every reconcile of the unchanged controller fails and is queued again at once)
	}
	var fixed, livelock bool
	var rounds int
	if s.W != nil && s.W.EventMode {
		fixed, rounds = s.ConvergeEvents(2 * B)
		rep.Label("closing:event-driven")
	} else {
		fixed, rounds, livelock = s.Converge(B)
	}
	rep.Label(fmt.Sprintf("closing-rounds<=%d", ((rounds+4)/5)*5))
	// premise check: a Failed/Succeeded pod outside the desired set under OrderedReady can never
	// become Ready and the controller is not obliged to replace it (upstream semantics block
	// scale-in by design); the property's fairness premise is then false for this run.
	set = s.Set()
	D := model.DesiredSet(int(*set.Spec.Replicas), parseSlots(set))
	// (one such pod is not enough: it is the first unhealthy pod once everything else is Ready, and is removed;
	// it takes a second one, which the ordered scale-in never gets past)
	if set.Spec.PodManagementPolicy != "Parallel" {
		stuck := 0
		for _, p := range s.C.PodsIn(NS) {
			if ord, ok := model.Canonical(s.Name, p.Name); ok && !D[ord] && terminal(p) {
				stuck++
			}
		}
		if stuck >= 2 {
			rep.Label("premise-excluded:terminal-pod-outside-desired-set-under-OrderedReady")
			return false
		}
	}
	if !fixed {
		if squatted || nameTaken(s, set) {
			rep.Label("premise-excluded:name-of-desired-ordinal-taken-by-foreign-pod")
			return false
		}
		if livelock {
			rep.Violate("converge/livelock", "the closing schedule revisits a state while still writing (round %d)\n%s", rounds, s.Transcript())
		}
		rep.Violate("converge/no-fixpoint-within-bound", "no fixed point within %d fair rounds\n%s", B, s.Transcript())
	}
	fixedPointOracle(rep, s, true)
	return true
}

// deletingCensus: a set that is being deleted does no pod work, but C12's last clause has no such exception: once
// everything is quiet its counters are a census of its pods (the controller keeps refreshing the status of such a set).
// Convergence itself is not demanded here (that is C02's, and a deleting set has nothing to converge to).
func deletingCensus(rep Rep, s *Sys) {
	B := closingBudget(s)
	var fixed bool
	if s.W != nil && s.W.EventMode {
		fixed, _ = s.ConvergeEvents(2 * B)
	} else {
		fixed, _, _ = s.Converge(B)
	}
	set := s.Set()
	if !fixed || set == nil || set.DeletionTimestamp == nil {
		rep.Label("closing:set-deleting(no fixed point, skipped)")
		return
	}
	rep.Label("closing:set-deleting(census)")
	sel, err := metav1.LabelSelectorAsSelector(set.Spec.Selector)
	if err != nil {
		return
	}
	n, ready, cur, upd := 0, 0, 0, 0
	for _, p := range s.C.PodsIn(NS) {
		if _, ok := model.Canonical(s.Name, p.Name); !ok || !isControlledBy(p.OwnerReferences, set.UID) || !sel.Matches(labels.Set(p.Labels)) {
			continue
		}
		n++
		if p.Status.Phase == corev1.PodRunning && sim.IsReady(p) {
			ready++
		}
		if p.DeletionTimestamp == nil && p.Status.Phase != "" {
			if podRev(p) == set.Status.CurrentRevision {
				cur++
			}
			if podRev(p) == set.Status.UpdateRevision {
				upd++
			}
		}
	}
	st := set.Status
	if int(st.Replicas) != n || int(st.ReadyReplicas) != ready || int(st.CurrentReplicas) != cur || int(st.UpdatedReplicas) != upd {
		rep.Violate("fixpoint/census-of-deleting-set", "the set is being deleted and everything is quiet: status {replicas=%d ready=%d current=%d updated=%d} but its pods are {total=%d ready=%d atCurrent=%d atUpdate=%d}\n%s",
			st.Replicas, st.ReadyReplicas, st.CurrentReplicas, st.UpdatedReplicas, n, ready, cur, upd, s.Transcript())
	}
}

// nameTaken: some pod holds the name of a desired ordinal of set without being claimable by it.
func nameTaken(s *Sys, set *asv1.StatefulSet) bool {
	sel, err := metav1.LabelSelectorAsSelector(set.Spec.Selector)
	if err != nil {
		return false
	}
	D := model.DesiredSet(int(*set.Spec.Replicas), parseSlots(set))
	for _, p := range s.C.PodsIn(NS) {
		ord, ok := model.Canonical(s.Name, p.Name)
		if !ok || !D[ord] {
			continue
		}
		// (a pod of the set whose labels stopped matching is released at the next reconcile and then is such a pod)
		ref := metav1.GetControllerOf(p)
		if (ref != nil && ref.UID != set.UID) || !sel.Matches(labels.Set(p.Labels)) {
			return true
		}
	}
	return false
}

func repairKinds(w World) int {
	slots := map[int]bool{}
	for _, k := range w.Spec.Slots {
		slots[int(k)] = true
	}
	D := model.DesiredSet(int(w.Spec.R), slots)
	kinds := map[string]bool{}
	present := map[int]bool{}
	for _, p := range w.Pods {
		present[p.Ord] = true
		switch {
		case !D[p.Ord]:
			kinds["condemned"] = true
		case p.Phase >= 4:
			kinds["failed"] = true
		case p.Term:
			kinds["terminating"] = true
		case p.Phase < 3:
			kinds["unready"] = true
		}
		if D[p.Ord] && p.Rev != len(w.Hist)-1 {
			kinds["outdated"] = true
		}
		if p.Orphan {
			kinds["orphan"] = true
		}
		if p.NoIdentity {
			kinds["identity"] = true
		}
	}
	for i := range D {
		if !present[i] {
			kinds["vacancy"] = true
		}
	}
	return len(kinds)
}

func runC02(rep Rep, w World) {
	s := runHistory(rep, w, func(v *View, op *Op, s *Sys) {})
	defer s.Close()
	s.OnRecord = nil
	rep.FP(worldFP(w))
	slotBelow := false
	slots := map[int]bool{}
	for _, k := range w.Spec.Slots {
		slots[int(k)] = true
	}
	D := model.Desired(int(w.Spec.R), slots)
	for k := range slots {
		if len(D) > 0 && k < D[len(D)-1] {
			slotBelow = true
		}
	}
	if !closeAndCheck(rep, s) {
		return
	}
	if n := repairKinds(w); n >= 2 || slotBelow {
		rep.Nontrivial()
		rep.Label(fmt.Sprintf("repair-kinds=%d", n))
	}
}

var c02Opts = func() worldOpts {
	o := histOpts
	o.maxOps = 25
	o.constructed = 9
	o.orphanRevs = true
	o.eventMode = true
	w := opWeights{}
	for k, v := range defaultWeights {
		w[k] = v
	}
	w[OpEditStrategy] = 1
	w[OpEditLimit] = 1
	w[OpRestart] = 1
	w[OpStatusRestored] = 1
	w[OpClaimTerminating] = 1
	o.weights = w
	return o
}()

func TestC02(t *testing.T) {
	checkCases(t, "C02", func(rt *rapid.T) World { return genWorld(rt, c02Opts) }, runC02)
}
func TestRegressC02(t *testing.T) { regress(t, "C02", runC02) }

// ---------------------------------------------------------------------------------------------
// C12 — status tells the truth: per-write monitor over legitimate (reachable) histories plus the
// fixed-point census.

func runC12(rep Rep, w World) {
	nt := false
	s := runHistory(rep, w, func(v *View, op *Op, s *Sys) {
		v.ForeignObs = s.foreignObs
		n := monC12(rep, v)
		if n > 0 {
			podWrite := false
			for _, a := range v.Rec.Actions {
				if a.Resource == "pods" && a.IsWrite() {
					podWrite = true
				}
			}
			revs := map[string]bool{v.Set.Status.CurrentRevision: true, v.Set.Status.UpdateRevision: true}
			for _, p := range v.Claimed {
				revs[podRev(p)] = true
			}
			delete(revs, "")
			if podWrite || len(revs) >= 3 {
				nt = true
			}
			if len(revs) >= 3 {
				rep.Label("status-write-with->=3-revisions-in-flight")
			}
		}
	})
	defer s.Close()
	s.OnRecord = func(r *sim.Record, op *Op) {
		if v := NewView(r); v != nil {
			v.ForeignObs = s.foreignObs
			monC12(rep, v)
		}
	}
	rep.FP(worldFP(w))
	// pods named S-<digits> that are not the canonical spelling of an ordinal (S-01, S-4294967296) are members the
	// controller counts but never manages: the per-write rules above apply, the fixed-point census does not
	strays := false
	for _, p := range s.C.PodsIn(NS) {
		if parent, _, _ := model.ParsePodName(p.Name); parent == s.Name {
			if _, ok := model.Canonical(s.Name, p.Name); !ok {
				strays = true
			}
		}
	}
	if strays {
		rep.Label("closing-skipped:non-canonical-pod-names")
	} else if set := s.Set(); set != nil && set.DeletionTimestamp != nil && set.Annotations["paused-reconcile"] != "true" {
		deletingCensus(rep, s)
	} else {
		closeAndCheck(rep, s)
	}
	if nt {
		rep.Nontrivial()
	}
}

var c12Opts = func() worldOpts {
	o := histOpts
	o.constructed = 0     // reachable states only: everything comes from legitimate transitions ...
	o.heldRollouts = true // ... plus the one constructed shape that is plainly reachable: a rollout held by its partition
	o.eventMode = true
	w := opWeights{}
	for k, v := range defaultWeights {
		w[k] = v
	}
	w[OpEditTemplate] = 5
	w[OpSettle] = 5
	w[OpUserDeletePod] = 2
	w[OpKubelet] = 10
	w[OpAddStrayPod] = 1
	w[OpRelabelPod] = 1
	w[OpStatusRestored] = 1
	o.weights = w
	return o
}()

func genC12(rt *rapid.T) World {
	w := genWorld(rt, c12Opts)
	if rapid.IntRange(0, 5).Draw(rt, "endsDeleting") == 0 {
		// the history ends with the set being deleted (held by a finalizer) while its pods still change
		w.Ops = append(w.Ops, Op{K: OpMarkDeleting}, Op{K: OpReconcile},
			Op{K: OpKubelet, A: rapid.IntRange(0, 20).Draw(rt, "delK1a"), B: rapid.IntRange(0, 20).Draw(rt, "delK1b")},
			Op{K: OpUserDeletePod, A: rapid.IntRange(0, 20).Draw(rt, "delUD")},
			Op{K: OpKubelet, A: rapid.IntRange(0, 20).Draw(rt, "delK2a"), B: rapid.IntRange(0, 20).Draw(rt, "delK2b")},
			Op{K: OpReconcile})
	}
	return w
}

func TestC12(t *testing.T) {
	checkCases(t, "C12", genC12, runC12)
}
func TestRegressC12(t *testing.T) { regress(t, "C12", runC12) }
