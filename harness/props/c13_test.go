package props

import (
	"fmt"
	"sort"
	"testing"

	appsv1 "k8s.io/api/apps/v1"
	"k8s.io/apimachinery/pkg/labels"
	"pgregory.net/rapid"

	asv1 "github.com/pingcap/advanced-statefulset/client/apis/apps/v1"

	"verifharness/sim"
)

// C13 — history is trimmed only beyond the limit and never loses a live revision.

type C13Case struct {
	W        World  `json:"world"`
	XRevs    []XRev `json:"xrevs,omitempty"`
	Deleting bool   `json:"deleting,omitempty"`
}

func (c C13Case) Summary() interface{} {
	return map[string]interface{}{"world": summarizeWorld(c.W), "extra_revs": c.XRevs, "deleting": c.Deleting}
}

func genC13(rt *rapid.T) C13Case {
	o := histOpts
	o.maxOps = 14
	o.constructed = 7
	o.orphanRevs = true
	w := opWeights{OpReconcile: 10, OpKubelet: 3, OpEditTemplate: 5, OpEditLimit: 3, OpSettle: 2, OpRefreshAll: 1, OpUserDeletePod: 1, OpEditReplicas: 1}
	o.weights = w
	c := C13Case{W: genWorld(rt, o)}
	c.W.Spec.Limit = rapid.SampledFrom([]int32{0, 0, 1, 1, 2, 3, 10}).Draw(rt, "limit13")
	n := rapid.IntRange(0, 5).Draw(rt, "nxrevs")
	for i := 0; i < n; i++ {
		c.XRevs = append(c.XRevs, XRev{
			Owner:  rapid.SampledFrom([]int{0, 0, 0, 0, 1, 2, 3, 4}).Draw(rt, "rowner"),
			Labels: rapid.SampledFrom([]int{0, 0, 2, 2, 1, 3}).Draw(rt, "rlabels"),
			Equal:  rapid.IntRange(0, 4).Draw(rt, "requal") == 0,
			Rev:    int64(rapid.IntRange(0, 4).Draw(rt, "rrev")),
		})
	}
	c.Deleting = rapid.IntRange(0, 5).Draw(rt, "deleting") == 0
	// a quarter of the reconciles that carry no other fault have the first revision delete fail
	for i := range c.W.Ops {
		if op := &c.W.Ops[i]; op.K == OpReconcile && op.FaultAt == 0 && op.InterAt == 0 && rapid.IntRange(0, 3).Draw(rt, "trimFault") == 0 {
			op.FaultAt = -4
			op.Fault = rapid.SampledFrom([]int{FServerError, FTimeoutLost, FTimeoutApplied, FNotFound}).Draw(rt, "trimFaultKind")
		}
	}
	// ... and a fifth of the rest have somebody write a revision between two of the reconcile's calls (the history is
	// listed by two queries per pass, several times per reconcile)
	for i := range c.W.Ops {
		if op := &c.W.Ops[i]; op.K == OpReconcile && op.FaultAt == 0 && op.InterAt == 0 && rapid.IntRange(0, 4).Draw(rt, "touchRev") == 0 {
			op.InterAt = rapid.SampledFrom([]int{2, 4, 6, 8}).Draw(rt, "touchAt")
			op.InterKind = OpTouchRev
			op.InterA = rapid.IntRange(0, 20).Draw(rt, "touchWhich")
		}
	}
	return c
}

type revInfo struct {
	Name    string
	Rev     int64
	Created int64
	Own     bool
}

func monC13(rep Rep, v *View) (interesting bool) {
	uid := v.Set.UID
	var deletes []*sim.Action
	for _, a := range v.Rec.Actions {
		if a.Resource == "controllerrevisions" && a.Verb == "delete" {
			deletes = append(deletes, a)
		}
	}
	// a revision the set owns but that carries neither its selector labels nor the upgrade marker cannot
	// be found by a label query: it is outside "the set's history" (a corrupt object), not judged
	visible := func(r *appsv1.ControllerRevision) bool {
		return v.Selector.Matches(labels.Set(r.Labels)) || r.Labels["apps.pingcap.com/upgrade-to-asts"] == v.Name
	}
	// state of every revision at trim time: survivors as they are afterwards, deleted ones as they were
	info := map[string]revInfo{}
	for _, r := range v.Rec.RevsAfter {
		if r.Namespace == v.Set.Namespace {
			info[r.Name] = revInfo{r.Name, r.Revision, r.CreationTimestamp.Unix(), isControlledBy(r.OwnerReferences, uid) && visible(r)}
		}
	}
	for _, a := range deletes {
		if b, ok := a.Before.(*appsv1.ControllerRevision); ok {
			if _, still := info[b.Name]; still {
				continue // the delete did not take effect
			}
			info[b.Name] = revInfo{b.Name, b.Revision, b.CreationTimestamp.Unix(), isControlledBy(b.OwnerReferences, uid) && visible(b)}
		}
	}
	_ = visible
	live := map[string]bool{}
	// the update revision of this reconcile: the one it wrote to the status, else the cached one
	// (no write means unchanged); the current revision: the cached status' one if it names a revision
	upd := v.Set.Status.UpdateRevision
	for _, a := range statusWrites(v.Rec) {
		if o, ok := a.Obj.(*asv1.StatefulSet); ok {
			upd = o.Status.UpdateRevision
		}
	}
	live[upd] = true
	if _, ok := v.RevImage[v.Set.Status.CurrentRevision]; ok {
		live[v.Set.Status.CurrentRevision] = true
	}
	for _, p := range v.Claimed {
		live[podRev(p)] = true
	}
	for _, p := range v.Odd {
		live[podRev(p)] = true // ambiguous pods: their revisions are not asserted trimmable
	}
	// pods created in this reconcile name their revision too
	for _, pa := range v.PodActs() {
		if pa.Create {
			if p := pa.A.Obj; p != nil {
				live[podRevObj(p)] = true
			}
		}
	}
	var unused []revInfo
	for _, ri := range info {
		if ri.Own && !live[ri.Name] {
			unused = append(unused, ri)
		}
	}
	sort.Slice(unused, func(i, j int) bool {
		a, b := unused[i], unused[j]
		if a.Rev != b.Rev {
			return a.Rev < b.Rev
		}
		if a.Created != b.Created {
			return a.Created < b.Created
		}
		return a.Name < b.Name
	})
	limit := int(*v.Set.Spec.RevisionHistoryLimit)
	seen := map[string]bool{}
	for _, a := range deletes {
		interesting = true
		b, _ := a.Before.(*appsv1.ControllerRevision)
		if seen[a.Name] {
			rep.Violate("trim/revision-deleted-twice", "revision %s deleted twice in one reconcile%s", a.Name, ctx(v))
		}
		seen[a.Name] = true
		if b == nil {
			if a.Err == nil {
				rep.Violate("trim/delete-of-missing-revision-succeeded", "%s%s", a, ctx(v))
			}
			continue
		}
		if !isControlledBy(b.OwnerReferences, uid) {
			who := "nobody (orphan)"
			if c := controllerOf(b.OwnerReferences); c != nil {
				who = fmt.Sprintf("%s/%s (%s)", c.Kind, c.Name, c.UID)
			}
			rep.Violate("trim/revision-not-own", "deleted revision %s which is controlled by %s, not by this set%s", a.Name, who, ctx(v))
		}
		if live[a.Name] {
			rep.Violate("trim/live-revision-deleted", "deleted revision %s which is current, update or named by a pod of the set%s", a.Name, ctx(v))
		}
	}
	vanished := false
	for _, a := range deletes {
		if a.Before == nil {
			vanished = true // the target was removed by someone else just before the call: counts are not comparable
		}
	}
	if vanished {
		return
	}
	if len(deletes) > 0 && len(unused) <= limit {
		rep.Violate("trim/within-limit", "revisions deleted although only %d unused own revisions exist (limit %d)%s", len(unused), limit, ctx(v))
	}
	// "after a successful reconcile at most revisionHistoryLimit unused revisions remain": judged on what is
	// stored afterwards, whatever happened to individual calls - a reconcile that reports success although a
	// delete failed has left more behind than it says
	if v.Rec.Err == nil && !v.Rec.Crashed && v.Rec.ListedPods {
		left := 0
		var names []string
		after := map[string]bool{}
		for _, r := range v.Rec.RevsAfter {
			if r.Namespace == v.Set.Namespace {
				after[r.Name] = true
			}
		}
		for _, u := range unused {
			if after[u.Name] {
				left++
				names = append(names, u.Name)
			}
		}
		if left > limit {
			rep.Violate("trim/more-than-limit-left-after-success", "the reconcile reported success but %d unused own revisions remain (%v), limit %d%s", left, names, limit, ctx(v))
		}
	}
	clean := v.Rec.Err == nil && !v.Rec.Crashed
	for _, a := range v.Rec.Actions {
		if a.Faulted {
			clean = false
		}
	}
	want := 0
	if len(unused) > limit {
		want = len(unused) - limit
	}
	var wantNames, gotNames []string
	for i := 0; i < want; i++ {
		wantNames = append(wantNames, unused[i].Name)
	}
	for _, a := range deletes {
		gotNames = append(gotNames, a.Name)
	}
	if clean && v.Rec.ListedPods {
		if fmt.Sprint(gotNames) != fmt.Sprint(wantNames) {
			sig := "trim/not-oldest-first"
			if len(gotNames) < len(wantNames) {
				sig = "trim/too-few"
			} else if len(gotNames) > len(wantNames) {
				sig = "trim/too-many"
			}
			rep.Violate(sig, "deleted revisions %v, expected the %d oldest unused own revisions %v (unused own, oldest first: %v; limit %d)%s", gotNames, want, wantNames, unused, limit, ctx(v))
		}
	} else if len(gotNames) > len(wantNames) {
		rep.Violate("trim/too-many", "deleted revisions %v, at most %v expected%s", gotNames, wantNames, ctx(v))
	}
	if len(unused) > limit {
		interesting = true
	}
	return
}

func podRevObj(o interface{}) string {
	type labeled interface{ GetLabels() map[string]string }
	if l, ok := o.(labeled); ok {
		return l.GetLabels()["controller-revision-hash"]
	}
	return ""
}

func runC13(rep Rep, c C13Case) {
	w := c.W
	s := BuildWorld(rep, &w)
	defer s.Close()
	applyExtras(s, C10Case{W: w, XRevs: c.XRevs})
	if c.Deleting {
		s.C.MarkSetDeleting(NS, s.Name)
	}
	nt := false
	special := false
	for _, x := range c.XRevs {
		if x.Labels == 2 || x.Owner >= 2 {
			special = true
		}
	}
	s.OnRecord = func(r *sim.Record, op *Op) {
		if r.Panic != nil {
			rep.Violate("panic", "reconcile panicked: %v\n%s", r.Panic, r.Stack)
		}
		if v := NewView(r); v != nil && v.Set.Spec.RevisionHistoryLimit != nil {
			if monC13(rep, v) {
				nt = true
			}
		}
	}
	s.Reconcile(&Op{K: OpReconcile})
	for i := range w.Ops {
		s.Run(&w.Ops[i])
	}
	rep.FP(worldFPAny(c))
	if nt || special {
		rep.Nontrivial()
	}
	if special {
		rep.Label("doubly-listed-or-foreign-revision-present")
	}
	if c.Deleting {
		rep.Label("deleting-set")
	}
}

func TestC13(t *testing.T)        { checkCases(t, "C13", genC13, runC13) }
func TestRegressC13(t *testing.T) { regress(t, "C13", runC13) }
