package props

import (
	"context"
	"fmt"
	"strconv"
	"testing"

	apierrors "k8s.io/apimachinery/pkg/api/errors"
	metav1 "k8s.io/apimachinery/pkg/apis/meta/v1"
	"k8s.io/apimachinery/pkg/runtime"
	kubefake "k8s.io/client-go/kubernetes/fake"
	"pgregory.net/rapid"

	asv1 "github.com/pingcap/advanced-statefulset/client/apis/apps/v1"
	"github.com/pingcap/advanced-statefulset/client/apis/apps/v1/helper"
	asclientset "github.com/pingcap/advanced-statefulset/client/client/clientset/versioned"
	pcfake "github.com/pingcap/advanced-statefulset/client/client/clientset/versioned/fake"
	asclientsetv1 "github.com/pingcap/advanced-statefulset/client/client/clientset/versioned/typed/apps/v1"
)

// C19, lists: "lists keep their length and order" against a server that paginates the way the API server
// does (limit / continue, and continue tokens that expire). The fake clientset ignores both, so the typed
// client is wrapped here.

type pagingClient struct {
	asclientset.Interface
	p *pager
}

func (c pagingClient) AppsV1() asclientsetv1.AppsV1Interface {
	return pagingApps{c.Interface.AppsV1(), c.p}
}

type pagingApps struct {
	asclientsetv1.AppsV1Interface
	p *pager
}

func (a pagingApps) StatefulSets(ns string) asclientsetv1.StatefulSetInterface {
	return pagingSets{a.AppsV1Interface.StatefulSets(ns), a.p}
}

type pager struct {
	ExpireAtPage int // the request for this page (2, 3, ...) finds its continue token expired once; 0 = never
	expired      bool
	Requests     []string
}

type pagingSets struct {
	asclientsetv1.StatefulSetInterface
	p *pager
}

func (s pagingSets) List(ctx context.Context, opts metav1.ListOptions) (*asv1.StatefulSetList, error) {
	s.p.Requests = append(s.p.Requests, fmt.Sprintf("limit=%d continue=%q", opts.Limit, opts.Continue))
	all, err := s.StatefulSetInterface.List(ctx, metav1.ListOptions{LabelSelector: opts.LabelSelector, FieldSelector: opts.FieldSelector})
	if err != nil {
		return nil, err
	}
	start := 0
	if opts.Continue != "" {
		start, err = strconv.Atoi(opts.Continue)
		if err != nil {
			return nil, apierrors.NewBadRequest("bad continue token")
		}
		page := 1
		if opts.Limit > 0 {
			page = start/int(opts.Limit) + 1
		}
		if s.p.ExpireAtPage == page && !s.p.expired {
			s.p.expired = true
			return nil, apierrors.NewResourceExpired("the provided continue parameter is too old")
		}
	}
	if start > len(all.Items) {
		start = len(all.Items)
	}
	end := len(all.Items)
	out := &asv1.StatefulSetList{TypeMeta: all.TypeMeta, ListMeta: metav1.ListMeta{ResourceVersion: "100"}}
	if opts.Limit > 0 && start+int(opts.Limit) < end {
		end = start + int(opts.Limit)
		out.Continue = strconv.Itoa(end)
		rem := int64(len(all.Items) - end)
		out.RemainingItemCount = &rem
	}
	out.Items = all.Items[start:end]
	return out, nil
}

type C19ListCase struct {
	N            int   `json:"n"`
	ExpireAtPage int   `json:"expire_at_page,omitempty"`
	CallerLimit  int64 `json:"caller_limit,omitempty"` // 0 = the caller does not page
}

func genC19List(rt *rapid.T) C19ListCase {
	return C19ListCase{
		N:            rapid.SampledFrom([]int{0, 1, 3, 499, 500, 501, 777, 1000, 1001, 1200, 1501}).Draw(rt, "n"),
		ExpireAtPage: rapid.SampledFrom([]int{0, 0, 2, 2, 3, 4}).Draw(rt, "expireAtPage"),
		CallerLimit:  rapid.SampledFrom([]int64{0, 0, 0, 100, 700}).Draw(rt, "callerLimit"),
	}
}

func runC19List(rep Rep, c C19ListCase) {
	var objs []runtime.Object
	var want []string
	for i := 0; i < c.N; i++ {
		s := baseSet(NS, fmt.Sprintf("s%05d", i), int32(i%4))
		s.ResourceVersion = strconv.Itoa(i + 1)
		objs = append(objs, s)
		want = append(want, s.Name)
	}
	p := &pager{ExpireAtPage: c.ExpireAtPage}
	hc := helper.NewHijackClient(kubefake.NewSimpleClientset(), pagingClient{pcfake.NewSimpleClientset(objs...), p})
	cl := hc.AppsV1().StatefulSets(NS)
	var got []string
	opts := metav1.ListOptions{Limit: c.CallerLimit}
	for guard := 0; guard < 50; guard++ {
		l, err := cl.List(context.TODO(), opts)
		if err != nil {
			if c.CallerLimit != 0 && apierrors.IsResourceExpired(err) {
				// a caller that pages by itself restarts from scratch when its token has expired
				got, opts.Continue = nil, ""
				continue
			}
			rep.Violate("hijack/list-failed", "List(%+v) failed: %v (requests seen by the server: %v)", opts, err, p.Requests)
		}
		for _, it := range l.Items {
			if it.APIVersion != "apps/v1" {
				rep.Violate("hijack/list-item-apiversion", "listed item %s has apiVersion %q", it.Name, it.APIVersion)
			}
			got = append(got, it.Name)
		}
		if c.CallerLimit == 0 || l.Continue == "" {
			break
		}
		opts.Continue = l.Continue
	}
	if fmt.Sprint(got) != fmt.Sprint(want) {
		first := 0
		for first < len(got) && first < len(want) && got[first] == want[first] {
			first++
		}
		rep.Violate("hijack/list-length-or-order", "listing %d stored sets returned %d items; the first difference is at index %d (requests seen by the server: %v)", len(want), len(got), first, p.Requests)
	}
	rep.FP(c.N, c.ExpireAtPage, c.CallerLimit)
	if c.N > 500 {
		rep.Nontrivial()
		rep.Label("list-longer-than-a-page")
	}
}

func TestC19List(t *testing.T)        { checkCases(t, "C19", genC19List, runC19List) }
func TestRegressC19List(t *testing.T) { regress(t, "C19List", runC19List) }
