package props

import (
	"encoding/json"
	"fmt"
	"io"
	"regexp"
	"sort"
	"strconv"
	"strings"
	"testing"

	metav1 "k8s.io/apimachinery/pkg/apis/meta/v1"
	"k8s.io/apimachinery/pkg/util/sets"
	"pgregory.net/rapid"

	asv1 "github.com/pingcap/advanced-statefulset/client/apis/apps/v1"
	"github.com/pingcap/advanced-statefulset/client/apis/apps/v1/helper"

	"verifharness/model"
	"verifharness/sim"
)

// C01 — desired ordinals = first r non-negative integers not in delete-slots.

type C01Case struct {
	R      int32  `json:"r"`
	HasAnn bool   `json:"has_ann"`
	Ann    string `json:"ann"`
	// WellFormed: Ann was rendered from Slots (a JSON list of int32); then the parsed slots must be
	// exactly Slots. Otherwise strictSlots decides what the value denotes (no slots when invalid).
	WellFormed bool    `json:"well_formed"`
	Slots      []int32 `json:"slots,omitempty"`
	// Controller: 0 = helpers only, 1 = Parallel one-shot, 2 = OrderedReady to fixed point
	Controller int    `json:"controller"`
	SetName    string `json:"set_name"`
}

func (c C01Case) Summary() interface{} {
	return map[string]interface{}{"r": c.R, "ann": c.Ann, "has_ann": c.HasAnn, "controller": c.Controller, "set": c.SetName}
}

var malformedAnns = []string{"", "[1,", "abc", "[1.5]", `["1"]`, `{"a":1}`, "[2147483648]", "[-2147483649]", "null", "[null]", "[1,null,3]",
	"[ ]", "[[1]]", "1", "true", "[1e0]", "[01]", "[+1]", "[0x1]", "[1,]", " [0] ", "[0]x", "\x00", "[9999999999999999999999]", "[-0]",
	`[1,"2"]`, "[3,2147483648,1]", "[1,2.5]", "[2,[3]]", "[1,true]", `[0,{"a":1}]`, "[1,-2147483649]", "[2,1e1]", "[1] [2]", "[4,1.0]"}

func genSlotValue(rt *rapid.T, r int32) int32 {
	switch rapid.IntRange(0, 9).Draw(rt, "slotKind") {
	case 0:
		return rapid.SampledFrom([]int32{-2147483648, -3, -2, -1}).Draw(rt, "neg")
	case 1:
		return rapid.SampledFrom([]int32{2147483647, 2147483646, 1 << 20}).Draw(rt, "big")
	default:
		return rapid.Int32Range(0, r+6).Draw(rt, "slot")
	}
}

func renderList(rt *rapid.T, vals []int32) string {
	ws := func() string { return rapid.SampledFrom([]string{"", "", "", " ", "\n", "\t "}).Draw(rt, "ws") }
	var b strings.Builder
	b.WriteString(ws() + "[" + ws())
	for i, v := range vals {
		if i > 0 {
			b.WriteString(ws() + "," + ws())
		}
		fmt.Fprintf(&b, "%d", v)
	}
	b.WriteString(ws() + "]" + ws())
	return b.String()
}

func genC01(rt *rapid.T) C01Case {
	c := C01Case{R: rapid.Int32Range(0, 12).Draw(rt, "r")}
	c.SetName = rapid.SampledFrom([]string{"web", "web-1", "a", "db-0-x"}).Draw(rt, "setName")
	switch rapid.IntRange(0, 9).Draw(rt, "annKind") {
	case 0:
		c.HasAnn = false
	case 1:
		c.HasAnn = true
		c.Ann = rapid.SampledFrom(malformedAnns).Draw(rt, "malformed")
	case 2:
		c.HasAnn = true
		c.Ann = string(rapid.SliceOfN(rapid.Byte(), 0, 12).Draw(rt, "bytes"))
	case 3:
		// a list that is fine except for one element
		c.HasAnn = true
		n := rapid.IntRange(1, 5).Draw(rt, "nmixed")
		bad := rapid.IntRange(0, n-1).Draw(rt, "badAt")
		var parts []string
		for i := 0; i < n; i++ {
			if i == bad {
				parts = append(parts, rapid.SampledFrom([]string{"2147483648", "-2147483649", `"2"`, "1.5", "[3]", "true", "1e0", "{}", `""`, "1.0", "99999999999999999999"}).Draw(rt, "badElem"))
			} else {
				parts = append(parts, fmt.Sprint(genSlotValue(rt, c.R)))
			}
		}
		c.Ann = "[" + strings.Join(parts, ",") + "]"
	default:
		c.HasAnn = true
		c.WellFormed = true
		n := rapid.IntRange(0, 8).Draw(rt, "nslots")
		for i := 0; i < n; i++ {
			c.Slots = append(c.Slots, genSlotValue(rt, c.R))
		}
		// unsorted, duplicates allowed
		c.Ann = renderList(rt, c.Slots)
	}
	c.Controller = rapid.SampledFrom([]int{0, 0, 0, 0, 0, 1, 1, 2}).Draw(rt, "controller")
	return c
}

func int32SetToMap(s sets.Int32) map[int]bool {
	m := map[int]bool{}
	for k := range s {
		m[int(k)] = true
	}
	return m
}

func sortedInts(m map[int]bool) []int {
	out := make([]int, 0, len(m))
	for k := range m {
		out = append(out, k)
	}
	sort.Ints(out)
	return out
}

func c01Set(c C01Case) *asv1.StatefulSet {
	s := baseSet("ns", c.SetName, c.R)
	if c.HasAnn {
		s.Annotations = map[string]string{helper.DeleteSlotsAnn: c.Ann}
	}
	return s
}

var intLiteral = regexp.MustCompile(`^-?(0|[1-9][0-9]*)$`)

// strictSlots is the harness' own reading of an annotation value. status 0: a JSON list of int32
// literals (or null) - these are the slots; 1: anything else - "an invalid annotation means no
// slots" (the repository's own helper test pins that for the value "invalid"); 2: a list with null
// elements, which encoding/json accepts without error leaving zeros - nothing is said about those,
// the code's own parse is taken.
func strictSlots(ann string) (map[int]bool, int) {
	dec := json.NewDecoder(strings.NewReader(ann))
	dec.UseNumber()
	var v interface{}
	if err := dec.Decode(&v); err != nil {
		return map[int]bool{}, 1
	}
	var extra interface{}
	if err := dec.Decode(&extra); err != io.EOF {
		return map[int]bool{}, 1
	}
	if v == nil {
		return map[int]bool{}, 0
	}
	list, ok := v.([]interface{})
	if !ok {
		return map[int]bool{}, 1
	}
	out, gray := map[int]bool{}, false
	for _, e := range list {
		if e == nil {
			gray = true
			continue
		}
		n, ok := e.(json.Number)
		if !ok || !intLiteral.MatchString(string(n)) {
			return map[int]bool{}, 1
		}
		x, err := strconv.ParseInt(string(n), 10, 32)
		if err != nil {
			return map[int]bool{}, 1
		}
		out[int(x)] = true
	}
	if gray {
		return nil, 2
	}
	return out, 0
}

func runC01(rep Rep, c C01Case) {
	set := c01Set(c)
	parsed := helper.GetDeleteSlots(set)
	slots := int32SetToMap(parsed)
	if c.HasAnn {
		if want, st := strictSlots(c.Ann); st != 2 {
			if fmt.Sprint(sortedInts(want)) != fmt.Sprint(sortedInts(slots)) {
				sig := "codec/parse"
				if st == 1 {
					sig = "codec/invalid-annotation-yields-slots"
				}
				rep.Violate(sig, "annotation %q: the helper reads slots %v, it denotes %v", c.Ann, sortedInts(slots), sortedInts(want))
			}
		}
	}
	if c.WellFormed {
		want := map[int]bool{}
		for _, v := range c.Slots {
			want[int(v)] = true
		}
		if fmt.Sprint(sortedInts(want)) != fmt.Sprint(sortedInts(slots)) {
			rep.Violate("codec/parse", "annotation %q: parsed slots %v, written %v", c.Ann, sortedInts(slots), sortedInts(want))
		}
	}
	if !c.HasAnn && len(slots) != 0 {
		rep.Violate("codec/absent", "no annotation but slots %v", sortedInts(slots))
	}
	r := int(c.R)
	D := model.Desired(r, slots)
	Dset := model.DesiredSet(r, slots)

	// non-triviality: a slot displaces an ordinal, or the annotation is negative/extreme/malformed
	maxD := -1
	if len(D) > 0 {
		maxD = D[len(D)-1]
	}
	displaces, odd := false, c.HasAnn && !c.WellFormed
	for s := range slots {
		if s >= 0 && s <= maxD {
			displaces = true
		}
		if s < 0 || s > 1<<16 {
			odd = true
		}
	}
	if displaces {
		rep.Label("slot-displaces-ordinal")
	}
	if odd {
		rep.Label("negative/extreme/malformed")
	}
	if displaces || odd {
		rep.Nontrivial()
	}
	rep.FP(c.R, sortedInts(slots), c.HasAnn && !c.WellFormed, c.Ann == "", c.Controller)
	if c.HasAnn && !c.WellFormed {
		rep.FP(c.Ann)
	}

	// (1) GetPodOrdinals == D
	before := sets.NewInt32(parsed.List()...)
	got := int32SetToMap(helper.GetPodOrdinals(c.R, set))
	if fmt.Sprint(sortedInts(got)) != fmt.Sprint(D) {
		sig := "ordinals/mismatch"
		for k := range got {
			if k < 0 {
				sig = "ordinals/negative-member"
			}
		}
		if len(got) != r {
			sig = "ordinals/count"
			for s := range slots {
				if s < 0 {
					sig = "ordinals/negative-slot-extends-range"
				}
			}
		}
		rep.Violate(sig, "r=%d ann=%q slots=%v: GetPodOrdinals=%v want %v", c.R, c.Ann, sortedInts(slots), sortedInts(got), D)
	}
	got2 := int32SetToMap(helper.GetPodOrdinalsFromReplicasAndDeleteSlots(c.R, parsed))
	if fmt.Sprint(sortedInts(got2)) != fmt.Sprint(D) {
		rep.Violate("ordinals/from-slots-mismatch", "r=%d slots=%v: got %v want %v", c.R, sortedInts(slots), sortedInts(got2), D)
	}
	// (2) effective range and slots
	b, eff := helper.GetMaxReplicaCountAndDeleteSlots(c.R, parsed)
	if !parsed.Equal(before) {
		rep.Violate("range/mutates-input", "input slot set mutated: %v -> %v", before.List(), parsed.List())
	}
	wantB := model.Bound(r, slots)
	wantEff := model.EffectiveSlots(r, slots)
	if int(b) != wantB {
		rep.Violate("range/bound", "r=%d slots=%v: bound %d want %d", c.R, sortedInts(slots), b, wantB)
	}
	if fmt.Sprint(sortedInts(int32SetToMap(eff))) != fmt.Sprint(append([]int{}, wantEff...)) {
		rep.Violate("range/effective-slots", "r=%d slots=%v: effective slots %v want %v (bound %d)", c.R, sortedInts(slots), eff.List(), wantEff, b)
	}
	// [0,b) \ eff == D
	var recon []int
	for i := 0; i < int(b); i++ {
		if !eff.Has(int32(i)) {
			recon = append(recon, i)
		}
	}
	if fmt.Sprint(recon) != fmt.Sprint(append([]int{}, D...)) && !(len(recon) == 0 && len(D) == 0) {
		rep.Violate("range/reconstruct", "r=%d slots=%v: [0,%d)-%v = %v want %v", c.R, sortedInts(slots), b, eff.List(), recon, D)
	}
	// (3) max / min
	mx, mn := helper.GetMaxPodOrdinal(c.R, set), helper.GetMinPodOrdinal(c.R, set)
	if len(D) > 0 {
		if int(mx) != D[len(D)-1] {
			rep.Violate("maxmin/max", "r=%d slots=%v: max %d want %d", c.R, sortedInts(slots), mx, D[len(D)-1])
		}
		if int(mn) != D[0] {
			rep.Violate("maxmin/min", "r=%d slots=%v: min %d want %d", c.R, sortedInts(slots), mn, D[0])
		}
	} else if mx >= mn {
		rep.Violate("maxmin/empty", "empty ordinal set but max %d >= min %d", mx, mn)
	}

	// (4) controller
	if c.Controller == 0 {
		return
	}
	rep.Label(fmt.Sprintf("controller-mode-%d", c.Controller))
	if c.Controller == 1 {
		set.Spec.PodManagementPolicy = asv1.ParallelPodManagement
	}
	cl := sim.New()
	defer cl.Close()
	cl.Put(set)
	key := "ns/" + c.SetName
	created := map[string]bool{}
	want := map[string]bool{}
	for _, i := range D {
		want[fmt.Sprintf("%s-%d", c.SetName, i)] = true
	}
	rounds := 1
	if c.Controller == 2 {
		rounds = len(D) + 3
	}
	for round := 0; round < rounds; round++ {
		cl.RefreshAll()
		recd := cl.Reconcile(key)
		if recd.Panic != nil {
			rep.Violate("controller/panic", "reconcile panicked: %v\n%s", recd.Panic, recd.Stack)
		}
		if recd.Err != nil {
			rep.Violate("controller/error", "reconcile failed on an empty cluster: %v\n%s", recd.Err, recd.Transcript())
		}
		for _, a := range recd.Actions {
			if a.Verb == "create" && a.Resource == "pods" {
				if !want[a.Name] {
					_, ord, _ := model.ParsePodName(a.Name)
					sig := "controller/creates-outside-desired"
					if !Dset[ord] && slots[ord] {
						sig = "controller/creates-in-slot"
					}
					rep.Violate(sig, "r=%d ann=%q: controller created %s, desired %v\n%s", c.R, c.Ann, a.Name, D, recd.Transcript())
				}
				if a.Err == nil {
					created[a.Name] = true
				}
			}
		}
		for _, p := range cl.Pods() {
			cl.Kubelet(p.Namespace, p.Name, sim.KReady)
		}
	}
	if len(created) != len(want) {
		rep.Violate("controller/missing-creates", "r=%d ann=%q: controller created %v, desired %v", c.R, c.Ann, keys(created), keys(want))
	}
}

func keys(m map[string]bool) []string {
	out := make([]string, 0, len(m))
	for k := range m {
		out = append(out, k)
	}
	sort.Strings(out)
	return out
}

func TestC01(t *testing.T) { checkCases(t, "C01", genC01, runC01) }

func TestRegressC01(t *testing.T) { regress(t, "C01", runC01) }

// TestC01Exhaustive enumerates r in 0..6 x every subset of {-2..8} (thorough tier).
func TestC01Exhaustive(t *testing.T) {
	if !thorough() {
		t.Skip("thorough tier only")
	}
	r := rec("C01")
	n := 0
	for rr := int32(0); rr <= 6; rr++ {
		for mask := 0; mask < 1<<11; mask++ {
			var sl []int32
			for bit := 0; bit < 11; bit++ {
				if mask&(1<<bit) != 0 {
					sl = append(sl, int32(bit-2))
				}
			}
			j, _ := json.Marshal(sl)
			c := C01Case{R: rr, HasAnn: true, Ann: string(j), WellFormed: true, Slots: sl, SetName: "web"}
			if len(sl) == 0 {
				c.Ann = "[]"
			}
			func() {
				p := &P{T: t, base: base{id: "C01", r: r}}
				p.self = p
				defer p.finish()
				p.caseVal = c
				runC01(p, c)
			}()
			n++
		}
	}
	r.SetExtra("exhaustive_box", "r in 0..6 x all subsets of {-2..8}")
	r.SetExtra("exhaustive_cases", n)
}

var _ = metav1.Now

// FuzzC01: raw annotation bytes and replica count under Go's native fuzzer (thorough tier).
func FuzzC01(f *testing.F) {
	for _, s := range malformedAnns {
		f.Add(uint8(3), []byte(s))
	}
	f.Add(uint8(5), []byte("[1,3,-1,2147483647]"))
	r := rec("C01")
	f.Fuzz(func(t *testing.T, rr uint8, ann []byte) {
		c := C01Case{R: int32(rr % 13), HasAnn: true, Ann: string(ann), SetName: "web"}
		p := &P{T: t, base: base{id: "C01", r: r}}
		p.self = p
		defer p.finish()
		p.caseVal = c
		runC01(p, c)
	})
}
