package props

import (
	"encoding/json"
	corev1 "k8s.io/api/core/v1"
	metav1 "k8s.io/apimachinery/pkg/apis/meta/v1"

	asv1 "github.com/pingcap/advanced-statefulset/client/apis/apps/v1"

	"verifharness/model"
)

// baseSet returns a defaulted, valid Advanced StatefulSet: selector app=<name>, one container.
func baseSet(ns, name string, replicas int32) *asv1.StatefulSet {
	s := &asv1.StatefulSet{
		TypeMeta:   metav1.TypeMeta{Kind: "StatefulSet", APIVersion: "apps.pingcap.com/v1"},
		ObjectMeta: metav1.ObjectMeta{Name: name, Namespace: ns},
		Spec: asv1.StatefulSetSpec{
			Replicas:    &replicas,
			Selector:    &metav1.LabelSelector{MatchLabels: map[string]string{"app": name}},
			ServiceName: "svc",
			Template: corev1.PodTemplateSpec{
				ObjectMeta: metav1.ObjectMeta{Labels: map[string]string{"app": name}},
				Spec:       corev1.PodSpec{Containers: []corev1.Container{{Name: "c", Image: "img:1"}}},
			},
		},
	}
	asv1.SetObjectDefaults_StatefulSet(s)
	return s
}

// helperOrdinals: desired ordinals of a stored set, ascending (via the reference model).
func helperOrdinals(set *asv1.StatefulSet) []int {
	return model.Desired(int(*set.Spec.Replicas), parseSlots(set))
}

func worldFPAny(v interface{}) string {
	b, _ := json.Marshal(v)
	return string(b)
}
