package props

import (
	"encoding/json"
	"fmt"
	"k8s.io/apimachinery/pkg/api/meta"
	"sort"
	"strings"

	appsv1 "k8s.io/api/apps/v1"
	corev1 "k8s.io/api/core/v1"
	apierrors "k8s.io/apimachinery/pkg/api/errors"
	"k8s.io/apimachinery/pkg/api/resource"
	metav1 "k8s.io/apimachinery/pkg/apis/meta/v1"
	"k8s.io/apimachinery/pkg/runtime/schema"
	"k8s.io/apimachinery/pkg/types"
	"pgregory.net/rapid"

	asv1 "github.com/pingcap/advanced-statefulset/client/apis/apps/v1"
	"github.com/pingcap/advanced-statefulset/client/apis/apps/v1/helper"

	"verifharness/sim"
)

// ---------------------------------------------------------------------------------------------
// Parameters of a generated world. Everything is plain data (JSON round-trippable) so that a
// shrunk failing case can be saved and replayed without rapid.

const NS = "ns"

type SpecP struct {
	Name          string  `json:"name"`
	R             int32   `json:"r"`
	Slots         []int32 `json:"slots,omitempty"`
	Parallel      bool    `json:"parallel,omitempty"`
	PolicyOmitted bool    `json:"policy_omitted,omitempty"` // podManagementPolicy left empty (only when !Parallel)
	Strategy      int     `json:"strategy"`                 // 0 RollingUpdate{partition}, 1 RollingUpdate with nil block, 2 OnDelete, 3 OnDelete with a left-over rollingUpdate{partition} block (the CRD admits it), 4 type omitted + rollingUpdate{partition}, 5 type and block omitted
	Partition     int32   `json:"partition,omitempty"`
	Limit         int32   `json:"limit"`
	Claims        int     `json:"claims,omitempty"`
	// TemplateVolumes: 1 = the pod template itself declares a hostname, a subdomain and volumes: an emptyDir and a persistentVolumeClaim
	// volume named like the first claim template (legal; the claim template's volume takes its place in every pod)
	TemplateVolumes int `json:"template_volumes,omitempty"`
	// SelExpr: the selector uses matchExpressions only (no matchLabels)
	SelExpr bool `json:"sel_expr,omitempty"`
	// RichTemplates: the templates of the history differ in more than an image: odd-numbered ones ADD an annotation, a
	// node selector, a toleration and a second container that even-numbered ones do not have
	RichTemplates bool `json:"rich_templates,omitempty"`
	// SelExtra 1-3: matchLabels plus an Exists / NotIn / two-valued In requirement
	SelExtra int `json:"sel_extra,omitempty"`
	// ClaimLabels: claim templates carry labels of their own
	ClaimLabels bool   `json:"claim_labels,omitempty"`
	Service     string `json:"service,omitempty"`
}

// PodP describes one constructed pod of the initial population.
type PodP struct {
	Ord   int  `json:"ord"`
	Phase int  `json:"phase"` // 0 Pending unscheduled, 1 Pending scheduled, 2 Running not ready, 3 Running ready, 4 Failed, 5 Succeeded, 6 Running Ready=Unknown, 7 phase Unknown (Ready still True), 8 Running without a Ready condition
	Term  bool `json:"term,omitempty"`
	// Rev: index into the template history whose revision the pod carries; -1 = unknown revision name; -2 = no label
	Rev    int  `json:"rev"`
	Orphan bool `json:"orphan,omitempty"` // no owner reference (adoptable if labels match and not terminating)
	// NoIdentity: pod lacks the pod-name label (identity drift -> the controller updates the pod)
	NoIdentity bool `json:"no_identity,omitempty"`
	// Bare: a hand-made pod: no spec.hostname / spec.subdomain (both immutable, the controller cannot add them)
	Bare bool `json:"bare,omitempty"`
	// AltRef: the controller reference was written through the other served API version (v1alpha1); same UID
	AltRef bool `json:"alt_ref,omitempty"`
	// NoClaimVolumes: the pod's volumes do not cover the set's claim templates (a pod made by hand, or by an earlier
	// incarnation of the set with fewer templates): the controller repairs its storage in place
	NoClaimVolumes bool `json:"no_claim_volumes,omitempty"`
}

// ORev: an orphan (unowned) revision carrying the selector labels and/or the upgrade marker.
type ORev struct {
	Marker bool  `json:"marker,omitempty"` // carries the upgrade marker instead of the selector labels
	Equal  bool  `json:"equal,omitempty"`  // same data as the set's current template revision
	Rev    int64 `json:"rev"`
}

type World struct {
	Spec SpecP `json:"spec"`
	// Hist: template ids, oldest first; the last one is the set's current template. Each gets a revision
	// through legitimate reconciles of the (scaled to zero) set.
	Hist []int `json:"hist"`
	// CurRev: index into Hist that status.currentRevision is pointed at (-1: leave what the controller wrote)
	CurRev int    `json:"cur_rev"`
	Pods   []PodP `json:"pods,omitempty"`
	// OrphanRevs: unowned ControllerRevisions matching the selector (waiting for adoption)
	OrphanRevs []ORev `json:"orphan_revs,omitempty"`
	Ops        []Op   `json:"ops,omitempty"`
	// CloseLag: in the fair closing schedule the kubelet acts only after CloseLag extra reconciles of each
	// round (so reconciles do observe terminating / not yet ready pods)
	CloseLag int `json:"close_lag,omitempty"`
	// Big (thorough tier only): wider ranges - replicas up to 9, slots and ordinals up to 16, longer histories
	Big bool `json:"big,omitempty"`
	// FreshController: the case starts on a controller object built for it instead of a pooled one, so that
	// whatever the controller remembers between reconciles was learnt in this case (makes replays of cases that
	// re-use a set's name reproducible)
	FreshController bool `json:"fresh_controller,omitempty"`
	// EventMode: every cache refresh of the history delivers its add/update/delete notifications through the
	// handlers the controller registered, and the closing schedule is event-driven: a reconcile happens only
	// for a key that an event put into the work queue (quiescence = queue empty, caches current)
	EventMode bool `json:"event_mode,omitempty"`
}

// Op kinds
const (
	OpReconcile = iota
	OpKubelet
	OpRefreshAll
	OpRefreshPod
	OpRefreshSet
	OpEditReplicas
	OpEditSlotAdd
	OpEditSlotRemove
	OpEditTemplate
	OpEditPartition
	OpEditMeta
	OpUserDeletePod
	OpSettle
	OpScaleInAt // replicas-1 and slot k in one update (the documented scale-in gesture)
	OpPause
	OpMarkDeleting
	OpRestart
	OpEditLimit
	OpEditStrategy
	OpSetRecreate      // the set is deleted and re-created with a new UID (API only; caches lag until refreshed); b >= 100: orphaning delete, new service and claim list
	OpSetRemove        // the set disappears from the API (caches lag)
	OpAddOrphanPod     // somebody creates an unowned pod named S-<a> whose labels match the selector
	OpOrphanPod        // the owner references of pod a are stripped (orphaning delete of a previous owner, manual edit)
	OpClaimTerminating // claim a gets a deletion timestamp and is held by the pvc-protection finalizer (somebody deleted it while in use)
	OpEditSlotsRaw     // the user writes a delete-slots value that is not a list of int32: it denotes no slots
	OpRelabelPod       // pod a is relabelled by hand so that it stops matching the selector (or matches again); its owner reference stays
	OpAddStrayPod      // somebody creates a pod named S-0<a> (a leading-zero spelling of ordinal a) carrying the set's labels
	OpClaimRemove      // somebody deletes claim a outright (no pod uses it, or nobody cares): it is gone from the API
	OpPauseSeen        // the user pauses the set and the set informer delivers that at once (used as mid-reconcile interference)
	OpStatusRestored   // the status is overwritten from elsewhere (helper.Upgrade copies the built-in set's status verbatim, a backup is restored): observedGeneration runs ahead of metadata.generation, counters as in a/b
	OpPodSwapped       // pod a loses its pod-name label (the pod cache sees that), then is deleted and replaced - API only, the cache lags - by a same-named pod that another controller owns
	OpClaimLost        // the volume behind claim a is gone: the claim's status.phase becomes Lost (it stays the ordinal's claim)
	OpTouchRev         // somebody writes ControllerRevision a of the namespace (an annotation): its resourceVersion moves, nothing else
	numOpKinds
)

var opNames = [...]string{"reconcile", "kubelet", "refreshAll", "refreshPod", "refreshSet", "editReplicas", "slotAdd", "slotRemove",
	"editTemplate", "editPartition", "editMeta", "userDeletePod", "settle", "scaleInAt", "pause", "markDeleting", "restart", "editLimit", "editStrategy", "setRecreate", "setRemove", "addOrphanPod", "orphanPod", "claimTerminating", "editSlotsRaw", "relabelPod", "addStrayPod", "claimRemove", "pauseSeen", "statusRestored", "podSwapped", "claimLost", "touchRev"}

// Fault kinds for a reconcile op
const (
	FNone           = iota
	FServerError    // 500, not applied
	FTimeoutLost    // timeout, not applied
	FTimeoutApplied // applied, response lost
	FConflict       // target's RV bumped just before an update (a real concurrent write)
	FNotFound       // target really removed just before the call
	FAlreadyExists  // object really created just before a create
	FCrashBefore    // process dies at the call, call not applied
	FCrashAfter     // process dies right after the call took effect
	FInvalid        // 422: the API server (validation, an admission webhook) rejects the write; reads are not faulted
	FForbidden      // 403: quota / policy rejects the write
	numFaultKinds
)

var faultNames = [...]string{"none", "serverError", "timeoutLost", "timeoutApplied", "conflict", "notFound", "alreadyExists", "crashBefore", "crashAfter", "invalid", "forbidden"}

type Op struct {
	K int `json:"k"`
	A int `json:"a,omitempty"`
	B int `json:"b,omitempty"`
	C int `json:"c,omitempty"`
	// reconcile only
	Refresh int    `json:"refresh,omitempty"` // 0 full refresh before, 1 none (stale), 2 pods only, 3 set only
	Perm    uint64 `json:"perm,omitempty"`    // cache list order
	// Fault2 hits the Fault2Off-th call after the first fault, in the same reconcile (0 = none)
	Fault2    int  `json:"fault2,omitempty"`
	Fault2Off int  `json:"fault2_off,omitempty"`
	FaultAt   int  `json:"fault_at,omitempty"`   // 1-based call index the fault hits; 0 = none; -1 = the first status write of the reconcile, -2 = the first pod create, -3 = the first pod delete, -4 = the first ControllerRevision delete, -5 = the first uncached read of the set, -6 = the first pod update (identity / storage repair)
	Fault     int  `json:"fault,omitempty"`      // fault kind
	InterAt   int  `json:"inter_at,omitempty"`   // 1-based call index before which an environment op runs; 0 = none
	InterKind int  `json:"inter_kind,omitempty"` // env op kind (kubelet / refresh / edit …), same encoding as K
	InterA    int  `json:"inter_a,omitempty"`
	InterB    int  `json:"inter_b,omitempty"`
	Worker    bool `json:"worker,omitempty"` // run through one real worker step (queue bookkeeping observed)
	// claim faults (C06): 1 claim create -> server error, 2 claim create applied but reported as timeout,
	// 3 claim cache lookup fails, 4 claim dropped from the cache first (so its create hits AlreadyExists),
	// 5 the pod create is rejected with 403 Forbidden (quota), 6 with 422 Invalid
	PVCFault int `json:"pvc_fault,omitempty"`
	PVCIdx   int `json:"pvc_idx,omitempty"` // which claim create / lookup of the reconcile is hit (0-based)

	queued bool // internal: the reconcile was taken from the work queue by the event-driven closing
}

func (o Op) String() string {
	s := opNames[o.K]
	switch o.K {
	case OpReconcile:
		s += fmt.Sprintf("(refresh=%d perm=%d", o.Refresh, o.Perm)
		if o.FaultAt != 0 && o.Fault2 != 0 {
			s += fmt.Sprintf(" fault2=%s@+%d", faultNames[o.Fault2], o.Fault2Off)
		}
		if o.FaultAt != 0 {
			s += fmt.Sprintf(" fault=%s@%d", faultNames[o.Fault], o.FaultAt)
		}
		if o.InterAt > 0 {
			s += fmt.Sprintf(" interfere=%s(%d,%d)@%d", opNames[o.InterKind], o.InterA, o.InterB, o.InterAt)
		}
		s += ")"
	default:
		s += fmt.Sprintf("(%d,%d)", o.A, o.B)
	}
	return s
}

// ---------------------------------------------------------------------------------------------
// object construction

func tmplImage(t int) string { return fmt.Sprintf("img:%d", t) }

// setTmpl makes template number t the set's template: always another image; with rich templates the odd-numbered ones
// carry fields the even-numbered ones lack (so that moving between them adds and removes keys, not just changes values).
func setTmpl(x *asv1.StatefulSet, rich bool, t int) {
	tp := &x.Spec.Template
	tp.Spec.Containers[0].Image = tmplImage(t)
	if !rich {
		return
	}
	for k := range tp.Annotations {
		if strings.HasPrefix(k, "cfg/") {
			delete(tp.Annotations, k)
		}
	}
	if len(tp.Annotations) == 0 {
		tp.Annotations = nil
	}
	tp.Spec.NodeSelector = nil
	tp.Spec.Tolerations = nil
	tp.Spec.Containers = tp.Spec.Containers[:1]
	if t%2 == 1 {
		if tp.Annotations == nil {
			tp.Annotations = map[string]string{}
		}
		tp.Annotations[fmt.Sprintf("cfg/%d", t)] = "on"
		tp.Spec.NodeSelector = map[string]string{"pool": fmt.Sprintf("p%d", t)}
		tp.Spec.Tolerations = []corev1.Toleration{{Key: "dedicated", Operator: corev1.TolerationOpEqual, Value: fmt.Sprintf("t%d", t), Effect: corev1.TaintEffectNoSchedule}}
		tp.Spec.Containers = append(tp.Spec.Containers, corev1.Container{Name: "sidecar", Image: fmt.Sprintf("side:%d", t), TerminationMessagePath: "/dev/termination-log", TerminationMessagePolicy: corev1.TerminationMessageReadFile, ImagePullPolicy: corev1.PullIfNotPresent})
	}
}

func (s SpecP) selectorLabels() map[string]string { return map[string]string{"app": s.Name} }

func claimTemplates(n int) []corev1.PersistentVolumeClaim {
	names := []string{"data", "logs", "www-1"}
	var out []corev1.PersistentVolumeClaim
	for i := 0; i < n && i < len(names); i++ {
		out = append(out, corev1.PersistentVolumeClaim{
			ObjectMeta: metav1.ObjectMeta{Name: names[i]},
			Spec: corev1.PersistentVolumeClaimSpec{
				AccessModes: []corev1.PersistentVolumeAccessMode{corev1.ReadWriteOnce},
				Resources:   corev1.ResourceRequirements{Requests: corev1.ResourceList{corev1.ResourceStorage: resource.MustParse("1Gi")}},
			},
		})
	}
	return out
}

func slotsAnn(slots []int32) string {
	cp := append([]int32{}, slots...)
	sort.Slice(cp, func(i, j int) bool { return cp[i] < cp[j] })
	b, _ := json.Marshal(cp)
	return string(b)
}

func applySpec(set *asv1.StatefulSet, s SpecP) {
	r := s.R
	set.Spec.Replicas = &r
	if len(s.Slots) > 0 {
		if set.Annotations == nil {
			set.Annotations = map[string]string{}
		}
		set.Annotations[helper.DeleteSlotsAnn] = slotsAnn(s.Slots)
	} else {
		delete(set.Annotations, helper.DeleteSlotsAnn)
	}
	if s.Parallel {
		set.Spec.PodManagementPolicy = asv1.ParallelPodManagement
	} else {
		set.Spec.PodManagementPolicy = asv1.OrderedReadyPodManagement
		if s.PolicyOmitted {
			set.Spec.PodManagementPolicy = "" // the CRD does not default it; "Default is OrderedReady" (types.go)
		}
	}
	switch s.Strategy {
	case 0:
		p := s.Partition
		set.Spec.UpdateStrategy = asv1.StatefulSetUpdateStrategy{Type: asv1.RollingUpdateStatefulSetStrategyType,
			RollingUpdate: &asv1.RollingUpdateStatefulSetStrategy{Partition: &p}}
	case 1:
		set.Spec.UpdateStrategy = asv1.StatefulSetUpdateStrategy{Type: asv1.RollingUpdateStatefulSetStrategyType}
	case 2:
		set.Spec.UpdateStrategy = asv1.StatefulSetUpdateStrategy{Type: asv1.OnDeleteStatefulSetStrategyType}
	case 3:
		p := s.Partition
		set.Spec.UpdateStrategy = asv1.StatefulSetUpdateStrategy{Type: asv1.OnDeleteStatefulSetStrategyType,
			RollingUpdate: &asv1.RollingUpdateStatefulSetStrategy{Partition: &p}}
	case 4:
		p := s.Partition
		set.Spec.UpdateStrategy = asv1.StatefulSetUpdateStrategy{RollingUpdate: &asv1.RollingUpdateStatefulSetStrategy{Partition: &p}}
	case 5:
		set.Spec.UpdateStrategy = asv1.StatefulSetUpdateStrategy{}
	}
	l := s.Limit
	set.Spec.RevisionHistoryLimit = &l
	set.Spec.VolumeClaimTemplates = claimTemplates(s.Claims)
	if s.TemplateVolumes == 1 {
		set.Spec.Template.Spec.Volumes = []corev1.Volume{
			{Name: "scratch", VolumeSource: corev1.VolumeSource{EmptyDir: &corev1.EmptyDirVolumeSource{}}},
			{Name: "data", VolumeSource: corev1.VolumeSource{PersistentVolumeClaim: &corev1.PersistentVolumeClaimVolumeSource{ClaimName: "shared-data", ReadOnly: true}}},
		}
		// ... and a hostname and subdomain of its own (legal; the per-pod identity takes their place)
		set.Spec.Template.Spec.Hostname = "db"
		set.Spec.Template.Spec.Subdomain = "legacy-svc"
		// ... and metadata pasted from a live pod: an owner reference naming some controller, finalizers
		yes := true
		set.Spec.Template.OwnerReferences = []metav1.OwnerReference{{APIVersion: "apps/v1", Kind: "ReplicaSet", Name: "pasted", UID: "pasted-uid", Controller: &yes}}
	}
	if s.ClaimLabels {
		for i := range set.Spec.VolumeClaimTemplates {
			set.Spec.VolumeClaimTemplates[i].Labels = map[string]string{"tier": "storage"}
		}
	}
	if s.SelExtra > 0 && !s.SelExpr && set.Spec.Selector != nil {
		// matchLabels plus a set-based requirement that the pods' labels satisfy as well
		extra := []metav1.LabelSelectorRequirement{
			{Key: "app", Operator: metav1.LabelSelectorOpExists},
			{Key: "tier", Operator: metav1.LabelSelectorOpNotIn, Values: []string{"frontend"}},
			{Key: "app", Operator: metav1.LabelSelectorOpIn, Values: []string{s.Name, "canary-of-" + s.Name}},
		}[(s.SelExtra-1)%3]
		set.Spec.Selector.MatchExpressions = append(set.Spec.Selector.MatchExpressions, extra)
	}
	if s.SelExpr {
		set.Spec.Selector = &metav1.LabelSelector{MatchExpressions: []metav1.LabelSelectorRequirement{{Key: "app", Operator: metav1.LabelSelectorOpIn, Values: []string{s.Name}}}}
	}
	if s.Service != "" {
		set.Spec.ServiceName = s.Service
	}
}

func newSet(s SpecP, tmpl int) *asv1.StatefulSet {
	set := baseSet(NS, s.Name, 0)
	applySpec(set, s)
	setTmpl(set, s.RichTemplates, tmpl)
	return set
}

// revImage decodes a ControllerRevision's recorded template image (harness-side JSON decode,
// independent of the controller's codec).
func revImage(r *appsv1.ControllerRevision) string {
	var d struct {
		Spec struct {
			Template struct {
				Spec struct {
					Containers []struct {
						Image string `json:"image"`
					} `json:"containers"`
				} `json:"spec"`
			} `json:"template"`
		} `json:"spec"`
	}
	if err := json.Unmarshal(r.Data.Raw, &d); err != nil || len(d.Spec.Template.Spec.Containers) == 0 {
		return ""
	}
	return d.Spec.Template.Spec.Containers[0].Image
}

func isControlledBy(refs []metav1.OwnerReference, uid types.UID) bool {
	for _, r := range refs {
		if r.Controller != nil && *r.Controller && r.UID == uid {
			return true
		}
	}
	return false
}

func controllerOf(refs []metav1.OwnerReference) *metav1.OwnerReference {
	for i := range refs {
		if refs[i].Controller != nil && *refs[i].Controller {
			return &refs[i]
		}
	}
	return nil
}

func ownerRefTo(set *asv1.StatefulSet) metav1.OwnerReference {
	t := true
	return metav1.OwnerReference{APIVersion: "apps.pingcap.com/v1", Kind: "StatefulSet", Name: set.Name, UID: set.UID, Controller: &t, BlockOwnerDeletion: &t}
}

// mkPod builds a pod the way a StatefulSet pod looks (written from the documented identity rules).
func mkPod(set *asv1.StatefulSet, ord int, revName, image string, phase int, term bool) *corev1.Pod {
	name := fmt.Sprintf("%s-%d", set.Name, ord)
	p := &corev1.Pod{
		ObjectMeta: metav1.ObjectMeta{
			Name: name, Namespace: set.Namespace,
			Labels:          map[string]string{},
			OwnerReferences: []metav1.OwnerReference{ownerRefTo(set)},
		},
		Spec: *set.Spec.Template.Spec.DeepCopy(),
	}
	for k, v := range set.Spec.Template.Labels {
		p.Labels[k] = v
	}
	p.Labels["statefulset.kubernetes.io/pod-name"] = name
	if revName != "" {
		p.Labels["controller-revision-hash"] = revName
	}
	p.Spec.Containers[0].Image = image
	p.Spec.Hostname = name
	p.Spec.Subdomain = set.Spec.ServiceName
	for _, ct := range set.Spec.VolumeClaimTemplates {
		vol := corev1.Volume{Name: ct.Name, VolumeSource: corev1.VolumeSource{
			PersistentVolumeClaim: &corev1.PersistentVolumeClaimVolumeSource{ClaimName: fmt.Sprintf("%s-%s-%d", ct.Name, set.Name, ord)}}}
		replaced := false
		for i := range p.Spec.Volumes {
			if p.Spec.Volumes[i].Name == ct.Name {
				p.Spec.Volumes[i] = vol // a template volume of the same name gives way to the claim's
				replaced = true
			}
		}
		if !replaced {
			p.Spec.Volumes = append(p.Spec.Volumes, vol)
		}
	}
	setPhase(p, phase)
	if term {
		ts := metav1.Unix(1600000000, 0)
		p.DeletionTimestamp = &ts
	}
	return p
}

func setPhase(p *corev1.Pod, phase int) {
	ready := corev1.ConditionFalse
	switch phase {
	case 0:
		p.Status.Phase = corev1.PodPending
	case 1:
		p.Status.Phase = corev1.PodPending
		p.Spec.NodeName = "node"
	case 2:
		p.Status.Phase = corev1.PodRunning
		p.Spec.NodeName = "node"
	case 3:
		p.Status.Phase = corev1.PodRunning
		p.Spec.NodeName = "node"
		ready = corev1.ConditionTrue
	case 4:
		p.Status.Phase = corev1.PodFailed
		p.Spec.NodeName = "node"
	case 5:
		p.Status.Phase = corev1.PodSucceeded
		p.Spec.NodeName = "node"
	case 6:
		// the kubelet stopped reporting: Running, Ready=Unknown
		p.Status.Phase = corev1.PodRunning
		p.Spec.NodeName = "node"
		ready = corev1.ConditionUnknown
	case 7:
		// node lost: phase Unknown although the last Ready condition still says True
		p.Status.Phase = corev1.PodUnknown
		p.Spec.NodeName = "node"
		ready = corev1.ConditionTrue
	case 8:
		// Running, all containers ready, but no Ready condition reported (yet)
		p.Status.Phase = corev1.PodRunning
		p.Spec.NodeName = "node"
		p.Status.Conditions = []corev1.PodCondition{{Type: corev1.PodScheduled, Status: corev1.ConditionTrue}, {Type: corev1.ContainersReady, Status: corev1.ConditionTrue}}
		return
	}
	// the Ready condition is not the first one of the list
	p.Status.Conditions = []corev1.PodCondition{{Type: corev1.PodScheduled, Status: corev1.ConditionTrue}, {Type: corev1.PodInitialized, Status: corev1.ConditionTrue}, {Type: corev1.PodReady, Status: ready}}
}

// ---------------------------------------------------------------------------------------------
// Sys: a running world

type Sys struct {
	C    *sim.Cluster
	W    *World
	Key  string
	Name string
	// RevOf maps template id -> revision name created during build
	RevOf map[int]string
	// Trace is a human-readable history for failure transcripts
	Trace []func() string
	// OnRecord is invoked after every reconcile (monitors)
	OnRecord func(r *sim.Record, op *Op)
	// statusRestored: the history overwrote the status from elsewhere (observedGeneration may stay ahead)
	statusRestored bool
	foreignObs     int64
	// queueBurst: how many queued reconciles one closing round may run (0 = 64)
	queueBurst int
	// RemovedClaims: claims the user (not the controller) deleted during the history
	RemovedClaims map[string]bool
	// Fault2Hit: the last reconcile's second same-reconcile fault was reached
	Fault2Hit bool
	// counters
	Reconciles int
	// PVCFaulted: claim names hit by an injected claim fault in the running reconcile
	PVCFaulted       []string
	lastPVCFaultKind int
}

func (s *Sys) logf(format string, args ...interface{}) {
	if len(s.Trace) < 400 {
		s.Trace = append(s.Trace, func() string { return fmt.Sprintf(format, args...) })
	}
}

func (s *Sys) Transcript() string {
	var b strings.Builder
	for _, f := range s.Trace {
		b.WriteString(f())
		b.WriteString("\n")
	}
	return b.String() + "--- final API state ---\n" + s.C.Dump()
}

func (s *Sys) Set() *asv1.StatefulSet { return s.C.Set(NS, s.Name) }

// BuildWorld creates the cluster: the set goes through its template history scaled to zero (so
// every revision is created by the real controller through legitimate reconciles), then gets its
// real spec, an optionally re-pointed status.currentRevision and the constructed pod population.
func BuildWorld(rep Rep, w *World) *Sys {
	if w.Big {
		rep.Label("big-world")
	}
	c := sim.New()
	if w.FreshController {
		c.Restart()
	}
	s := &Sys{C: c, W: w, Name: w.Spec.Name, Key: NS + "/" + w.Spec.Name, RevOf: map[int]string{}}
	zero := w.Spec
	zero.R = 0
	zero.Slots = nil
	set := newSet(zero, w.Hist[0])
	c.Put(set)
	for i, t := range w.Hist {
		if i > 0 {
			c.UpdateSet(NS, s.Name, func(x *asv1.StatefulSet) { setTmpl(x, w.Spec.RichTemplates, t) })
		}
		c.RefreshAll()
		r := c.Reconcile(s.Key)
		if r.Err != nil || r.Panic != nil {
			rep.Violate("build/reconcile-failed", "building template history %v failed at %d: err=%v panic=%v\n%s", w.Hist, i, r.Err, r.Panic, r.Transcript())
		}
	}
	for _, rv := range c.Revs() {
		for _, t := range w.Hist {
			if revImage(rv) == tmplImage(t) {
				s.RevOf[t] = rv.Name
			}
		}
	}
	if last := w.Hist[len(w.Hist)-1]; c.Rev(NS, s.RevOf[last]) == nil {
		rep.Violate("build/update-revision-missing", "after reconciling template history %v the revision of the current template (%q) is not stored\n%s", w.Hist, s.RevOf[last], c.Dump())
	}
	c.UpdateSet(NS, s.Name, func(x *asv1.StatefulSet) { applySpec(x, w.Spec) })
	if w.CurRev >= 0 && w.CurRev < len(w.Hist) {
		st := c.Set(NS, s.Name)
		st.Status.CurrentRevision = s.RevOf[w.Hist[w.CurRev]]
		c.Put(st)
	}
	cur := c.Set(NS, s.Name)
	for _, pp := range w.Pods {
		revName, image := "", "img:unknown"
		switch {
		case pp.Rev >= 0 && pp.Rev < len(w.Hist):
			revName, image = s.RevOf[w.Hist[pp.Rev]], tmplImage(w.Hist[pp.Rev])
		case pp.Rev == -1:
			revName = s.Name + "-deadbeef"
		}
		p := mkPod(cur, pp.Ord, revName, image, pp.Phase, pp.Term)
		if pp.Orphan {
			p.OwnerReferences = nil
		}
		if pp.NoIdentity {
			delete(p.Labels, "statefulset.kubernetes.io/pod-name")
		}
		if pp.Bare {
			p.Spec.Hostname, p.Spec.Subdomain = "", ""
		}
		if pp.AltRef && len(p.OwnerReferences) == 1 {
			p.OwnerReferences[0].APIVersion = "apps.pingcap.com/v1alpha1"
		}
		var claimVolumes []corev1.Volume
		if pp.NoClaimVolumes {
			claimVolumes = p.Spec.Volumes
			var keep []corev1.Volume
			for _, v := range p.Spec.Volumes {
				if v.PersistentVolumeClaim == nil {
					keep = append(keep, v)
				}
			}
			p.Spec.Volumes = keep
		}
		c.Put(p)
		for _, v := range append(claimVolumes, p.Spec.Volumes...) {
			if v.PersistentVolumeClaim != nil && c.PVC(NS, v.PersistentVolumeClaim.ClaimName) == nil {
				c.Put(&corev1.PersistentVolumeClaim{ObjectMeta: metav1.ObjectMeta{Name: v.PersistentVolumeClaim.ClaimName, Namespace: NS, Labels: w.Spec.selectorLabels()}})
			}
		}
	}
	curRev := c.Rev(NS, s.RevOf[w.Hist[len(w.Hist)-1]])
	for i, o := range w.OrphanRevs {
		r := &appsv1.ControllerRevision{ObjectMeta: metav1.ObjectMeta{Name: fmt.Sprintf("orphan-rev-%d", i), Namespace: NS, Labels: map[string]string{}}, Revision: o.Rev}
		if o.Marker {
			r.Labels["apps.pingcap.com/upgrade-to-asts"] = s.Name
		} else {
			r.Labels["app"] = s.Name
		}
		if o.Equal {
			r.Data = *curRev.Data.DeepCopy()
		} else {
			r.Data.Raw = []byte(strings.Replace(string(curRev.Data.Raw), `"image":"img:`, `"image":"oimg:`, 1))
		}
		c.Put(r)
	}
	c.RefreshAll()
	if w.EventMode {
		// the initial list of a starting controller: one add event for the set
		c.DrainQueue()
		c.Enqueue(s.Key)
	}
	initial := c.Dump()
	s.Trace = append(s.Trace, func() string { return "initial state:\n" + initial })
	return s
}

func (s *Sys) Close() { s.C.Close() }

func (s *Sys) pickPod(i int) *corev1.Pod {
	pods := s.C.PodsIn(NS)
	if len(pods) == 0 {
		return nil
	}
	if i < 0 {
		i = -i
	}
	return pods[i%len(pods)]
}

func gvk(kind string) schema.GroupKind { return schema.GroupKind{Kind: kind} }

// makeFault turns a fault kind into what the reactor does at the chosen call. Interference kinds
// change the real API state just before the call, so the response the controller sees is one a
// real API server could give.
func (s *Sys) makeFault(kind int, a *sim.Action) *sim.Fault {
	gr := schema.GroupResource{Group: a.GVR.Group, Resource: a.Resource}
	switch kind {
	case FServerError:
		return &sim.Fault{Err: apierrors.NewInternalError(fmt.Errorf("injected server error"))}
	case FTimeoutLost:
		return &sim.Fault{Err: apierrors.NewTimeoutError("injected timeout (not applied)", 1)}
	case FTimeoutApplied:
		return &sim.Fault{Err: apierrors.NewTimeoutError("injected timeout (applied)", 1), Apply: true}
	case FInvalid:
		if a.IsWrite() {
			return &sim.Fault{Err: apierrors.NewInvalid(schema.GroupKind{Group: a.GVR.Group, Kind: a.Resource}, a.Name, nil)}
		}
		return nil
	case FForbidden:
		if a.IsWrite() {
			return &sim.Fault{Err: apierrors.NewForbidden(gr, a.Name, fmt.Errorf("injected: rejected by policy"))}
		}
		return nil
	case FCrashBefore:
		return &sim.Fault{Crash: true}
	case FCrashAfter:
		return &sim.Fault{Crash: true, Apply: true}
	case FConflict:
		if a.Verb == "update" && a.Name != "" {
			// a concurrent writer touched the object: bump its resource version
			switch a.Resource {
			case "pods":
				if p := s.C.Pod(a.Namespace, a.Name); p != nil {
					if p.Annotations == nil {
						p.Annotations = map[string]string{}
					}
					p.Annotations["touched"] = fmt.Sprint(len(p.Annotations))
					s.C.Put(p)
				}
			case "statefulsets":
				s.C.UpdateSet(a.Namespace, a.Name, func(x *asv1.StatefulSet) {
					if x.Labels == nil {
						x.Labels = map[string]string{}
					}
					x.Labels["touched"] = fmt.Sprint(x.ResourceVersion)
				})
			case "controllerrevisions":
				if r := s.C.Rev(a.Namespace, a.Name); r != nil {
					if r.Annotations == nil {
						r.Annotations = map[string]string{}
					}
					r.Annotations["touched"] = r.ResourceVersion
					s.C.Put(r)
				}
			}
		}
		return nil
	case FNotFound:
		if a.Name != "" && a.Verb != "create" && a.Verb != "list" {
			s.C.Remove(a.GVR, a.Namespace, a.Name)
		}
		return nil
	case FAlreadyExists:
		if a.Verb == "create" && a.Obj != nil && a.Name != "" && a.Resource != "statefulsets" {
			if s.C.Pod(a.Namespace, a.Name) == nil && s.C.PVC(a.Namespace, a.Name) == nil && s.C.Rev(a.Namespace, a.Name) == nil {
				obj := a.Obj.DeepCopyObject()
				if m, err := meta.Accessor(obj); err == nil && m.GetNamespace() == "" {
					m.SetNamespace(a.Namespace) // the namespace travels with the request, not with the object
				}
				s.C.StampNew(obj)
				s.C.Put(obj)
			}
		}
		return nil
	}
	_ = gr
	return nil
}

// envOp runs one environment step (used both as a top-level op and as mid-reconcile interference).
func (s *Sys) envOp(k, a, b int) {
	c := s.C
	switch k {
	case OpKubelet:
		if p := s.pickPod(a); p != nil {
			op := sim.KubeletOp(abs(b) % sim.NumKubeletOps)
			if c.Kubelet(NS, p.Name, op) {
				s.logf("kubelet %s %s", op, p.Name)
			}
		}
	case OpRefreshAll:
		if s.W != nil && s.W.EventMode {
			s.SyncCachesNotify()
		} else {
			c.RefreshAll()
		}
		s.logf("refresh all caches")
	case OpRefreshPod:
		// a may also address a pod that exists only in the cache (deleted in the API)
		names := map[string]bool{}
		for _, p := range c.PodsIn(NS) {
			names[p.Name] = true
		}
		for _, p := range c.CachePods() {
			if p.Namespace == NS {
				names[p.Name] = true
			}
		}
		ks := keys(names)
		if len(ks) > 0 {
			n := ks[abs(a)%len(ks)]
			c.RefreshPod(NS, n, s.W != nil && s.W.EventMode)
			s.logf("refresh cache of pod %s", n)
		}
	case OpRefreshSet:
		c.RefreshSet(NS, s.Name, s.W != nil && s.W.EventMode)
		s.logf("refresh cache of set")
	case OpEditReplicas:
		v := int32(abs(a) % 6)
		if s.W != nil && s.W.Big {
			v = int32(abs(a) % 10)
		}
		c.UpdateSet(NS, s.Name, func(x *asv1.StatefulSet) { x.Spec.Replicas = &v })
		s.logf("user: replicas=%d", v)
	case OpEditSlotAdd:
		k := int32(abs(a) % 9)
		if s.W != nil && s.W.Big {
			k = int32((abs(a) + 21*abs(b)) % 17)
		}
		c.UpdateSet(NS, s.Name, func(x *asv1.StatefulSet) {
			sl := helper.GetDeleteSlots(x)
			sl.Insert(k)
			helper.SetDeleteSlots(x, sl)
		})
		s.logf("user: add slot %d", k)
	case OpEditSlotRemove:
		c.UpdateSet(NS, s.Name, func(x *asv1.StatefulSet) {
			sl := helper.GetDeleteSlots(x)
			l := sl.List()
			if len(l) > 0 {
				k := l[abs(a)%len(l)]
				sl.Delete(k)
				helper.SetDeleteSlots(x, sl)
				s.logf("user: remove slot %d", k)
			}
		})
	case OpScaleInAt:
		c.UpdateSet(NS, s.Name, func(x *asv1.StatefulSet) {
			ords := helper.GetPodOrdinals(*x.Spec.Replicas, x).List()
			if len(ords) == 0 {
				return
			}
			k := ords[abs(a)%len(ords)]
			r := *x.Spec.Replicas - 1
			x.Spec.Replicas = &r
			sl := helper.GetDeleteSlots(x)
			sl.Insert(k)
			helper.SetDeleteSlots(x, sl)
			s.logf("user: scale in at %d (replicas=%d)", k, r)
		})
	case OpEditTemplate:
		t := abs(a) % 4
		c.UpdateSet(NS, s.Name, func(x *asv1.StatefulSet) { setTmpl(x, s.W != nil && s.W.Spec.RichTemplates, t) })
		s.logf("user: template=%d", t)
	case OpEditPartition:
		v := int32(abs(a) % 8)
		c.UpdateSet(NS, s.Name, func(x *asv1.StatefulSet) {
			if x.Spec.UpdateStrategy.RollingUpdate != nil {
				x.Spec.UpdateStrategy.RollingUpdate.Partition = &v
			}
		})
		s.logf("user: partition=%d", v)
	case OpEditMeta:
		c.UpdateSet(NS, s.Name, func(x *asv1.StatefulSet) {
			if x.Annotations == nil {
				x.Annotations = map[string]string{}
			}
			x.Annotations["note"] = fmt.Sprint(abs(a) % 5)
		})
		s.logf("user: metadata edit")
	case OpEditLimit:
		v := int32(abs(a) % 4)
		c.UpdateSet(NS, s.Name, func(x *asv1.StatefulSet) { x.Spec.RevisionHistoryLimit = &v })
		s.logf("user: revisionHistoryLimit=%d", v)
	case OpEditStrategy:
		c.UpdateSet(NS, s.Name, func(x *asv1.StatefulSet) {
			sp := SpecP{Strategy: abs(a) % 4, Partition: int32(abs(b) % 6)}
			switch sp.Strategy {
			case 0:
				p := sp.Partition
				x.Spec.UpdateStrategy = asv1.StatefulSetUpdateStrategy{Type: asv1.RollingUpdateStatefulSetStrategyType, RollingUpdate: &asv1.RollingUpdateStatefulSetStrategy{Partition: &p}}
			case 1:
				x.Spec.UpdateStrategy = asv1.StatefulSetUpdateStrategy{Type: asv1.RollingUpdateStatefulSetStrategyType}
			case 2:
				x.Spec.UpdateStrategy = asv1.StatefulSetUpdateStrategy{Type: asv1.OnDeleteStatefulSetStrategyType}
			case 3:
				// switched to OnDelete by a patch that touches only the type: the block stays
				x.Spec.UpdateStrategy.Type = asv1.OnDeleteStatefulSetStrategyType
			}
			s.logf("user: strategy=%d partition=%d", sp.Strategy, sp.Partition)
		})
	case OpUserDeletePod:
		if p := s.pickPod(a); p != nil {
			c.UserDeletePod(NS, p.Name)
			s.logf("user: delete pod %s", p.Name)
		}
	case OpPause:
		on := abs(a)%2 == 0
		c.UpdateSet(NS, s.Name, func(x *asv1.StatefulSet) { helper.SetPausedReconcile(x, on) })
		s.logf("user: pause=%v", on)
	case OpMarkDeleting:
		if c.MarkSetDeletingAt(NS, s.Name, abs(a)%3 == 0) {
			s.logf("user: delete set (deletionTimestamp set)")
		}
	case OpAddOrphanPod:
		if set := c.Set(NS, s.Name); set != nil {
			ord := abs(a) % 9
			if s.W != nil && s.W.Big {
				ord = (abs(a) + 21*abs(b)) % 17
			}
			name := fmt.Sprintf("%s-%d", s.Name, ord)
			if c.Pod(NS, name) == nil {
				img := set.Spec.Template.Spec.Containers[0].Image
				p := mkPod(set, ord, "", img, 3, false)
				for t, rn := range s.RevOf {
					if tmplImage(t) == img {
						p.Labels["controller-revision-hash"] = rn
					}
				}
				p.OwnerReferences = nil
				if abs(b)%3 == 0 {
					p.Spec.Hostname, p.Spec.Subdomain = "", "" // written by hand, without the per-pod DNS identity
				}
				c.Put(p)
				s.logf("somebody creates unowned pod %s", name)
			}
		}
	case OpAddStrayPod:
		if set := c.Set(NS, s.Name); set != nil {
			ord := abs(a) % 5
			name := fmt.Sprintf("%s-0%d", s.Name, ord)
			if abs(b)%4 == 3 {
				name = fmt.Sprintf("%s-%d", s.Name, 4294967296+int64(ord)) // digits that do not fit an int32
			}
			if c.Pod(NS, name) == nil {
				img := set.Spec.Template.Spec.Containers[0].Image
				p := mkPod(set, ord, "", img, 3, false)
				p.Name = name
				p.Spec.Hostname = name
				p.Labels["statefulset.kubernetes.io/pod-name"] = name
				for t, rn := range s.RevOf {
					if tmplImage(t) == img {
						p.Labels["controller-revision-hash"] = rn
					}
				}
				if abs(b)%2 == 1 {
					p.OwnerReferences = nil
				}
				c.Put(p)
				s.logf("somebody creates pod %s (leading-zero spelling of ordinal %d, owned=%v)", name, ord, abs(b)%2 == 0)
			}
		}
	case OpRelabelPod:
		if p := s.pickPod(a); p != nil {
			if p.Labels == nil {
				p.Labels = map[string]string{}
			}
			if p.Labels["app"] == s.Name {
				p.Labels["app"] = "relabelled"
			} else {
				p.Labels["app"] = s.Name
			}
			c.Put(p)
			s.logf("user: pod %s relabelled app=%s", p.Name, p.Labels["app"])
		}
	case OpEditSlotsRaw:
		vals := []string{`[5,"6"]`, `[7,2.5]`, `[1,4294967296]`, `invalid`, `[1,`, `{"a":1}`, `[0,[2]]`, `[2,true]`, `[1] [2]`, `[3,-2147483649]`, `"[1]"`, `[1e0]`}
		val := vals[abs(a)%len(vals)]
		c.UpdateSet(NS, s.Name, func(x *asv1.StatefulSet) {
			if x.Annotations == nil {
				x.Annotations = map[string]string{}
			}
			x.Annotations[helper.DeleteSlotsAnn] = val
		})
		s.logf("user: delete-slots=%s (not a list of int32: no slots)", val)
	case OpPodSwapped:
		if p := s.pickPod(a); p != nil && p.DeletionTimestamp == nil {
			delete(p.Labels, "statefulset.kubernetes.io/pod-name")
			c.Put(p)
			c.RefreshPod(NS, p.Name, s.W != nil && s.W.EventMode)
			c.Remove(sim.GVRPods, NS, p.Name)
			n := p.DeepCopy()
			n.UID, n.ResourceVersion = "", ""
			yes := true
			n.OwnerReferences = []metav1.OwnerReference{{APIVersion: "apps/v1", Kind: "ReplicaSet", Name: "squatter", UID: "squatter-uid", Controller: &yes, BlockOwnerDeletion: &yes}}
			c.Put(n)
			s.logf("pod %s lost its pod-name label, was deleted and replaced by a pod of ReplicaSet squatter (the pod cache still holds the old one)", p.Name)
		}
	case OpStatusRestored:
		if st := c.Set(NS, s.Name); st != nil {
			st.Status.ObservedGeneration = st.Generation + 1 + int64(abs(a)%5)
			switch abs(b) % 3 {
			case 1: // the counters of the other object
				st.Status.Replicas, st.Status.ReadyReplicas = int32(abs(a)%4), int32(abs(a)%4)
				st.Status.CurrentReplicas, st.Status.UpdatedReplicas = int32(abs(a)%4), int32(abs(a)%4)
			case 2: // an empty status
				st.Status = asv1.StatefulSetStatus{ObservedGeneration: st.Status.ObservedGeneration}
			}
			c.Put(st)
			s.statusRestored = true
			s.foreignObs = st.Status.ObservedGeneration
			s.logf("status overwritten from elsewhere: observedGeneration=%d (generation %d) replicas=%d", st.Status.ObservedGeneration, st.Generation, st.Status.Replicas)
		}
	case OpPauseSeen:
		c.UpdateSet(NS, s.Name, func(x *asv1.StatefulSet) { helper.SetPausedReconcile(x, true) })
		c.RefreshSet(NS, s.Name, s.W != nil && s.W.EventMode)
		s.logf("user: pause (already visible in the set cache)")
	case OpClaimRemove:
		if claims := c.PVCs(); len(claims) > 0 {
			pvc := claims[abs(a)%len(claims)]
			c.Remove(sim.GVRPVCs, pvc.Namespace, pvc.Name)
			if s.RemovedClaims == nil {
				s.RemovedClaims = map[string]bool{}
			}
			s.RemovedClaims[pvc.Name] = true
			s.logf("user: claim %s deleted (gone)", pvc.Name)
		}
	case OpClaimTerminating:
		if claims := c.PVCs(); len(claims) > 0 {
			pvc := claims[abs(a)%len(claims)]
			if pvc.DeletionTimestamp == nil {
				ts := c.Tick()
				pvc.DeletionTimestamp = &ts
				pvc.Finalizers = append(pvc.Finalizers, "kubernetes.io/pvc-protection")
				c.Put(pvc)
				s.logf("user: claim %s deleted (terminating, held by its finalizer)", pvc.Name)
			}
		}
	case OpTouchRev:
		var revs []*appsv1.ControllerRevision
		for _, rv := range c.Revs() {
			if rv.Namespace == NS {
				revs = append(revs, rv)
			}
		}
		if len(revs) > 0 {
			rv := revs[abs(a)%len(revs)]
			if rv.Annotations == nil {
				rv.Annotations = map[string]string{}
			}
			rv.Annotations["touched"] = rv.ResourceVersion
			c.Put(rv)
			s.logf("somebody annotated revision %s (resourceVersion moves)", rv.Name)
		}
	case OpClaimLost:
		if claims := c.PVCs(); len(claims) > 0 {
			pvc := claims[abs(a)%len(claims)]
			pvc.Status.Phase = corev1.ClaimLost
			c.Put(pvc)
			s.logf("claim %s lost its volume (phase Lost)", pvc.Name)
		}
	case OpOrphanPod:
		if p := s.pickPod(a); p != nil && len(p.OwnerReferences) > 0 {
			p.OwnerReferences = nil
			c.Put(p)
			s.logf("owner references of pod %s stripped", p.Name)
		}
	case OpSetRecreate:
		if old := c.Set(NS, s.Name); old != nil {
			c.Remove(sim.GVRASts, NS, s.Name)
			n := old.DeepCopy()
			n.UID = ""
			n.ResourceVersion = ""
			n.DeletionTimestamp = nil
			n.CreationTimestamp = metav1.Time{}
			n.Generation = 1
			n.Status = asv1.StatefulSetStatus{}
			how := ""
			if abs(a)%3 == 0 && n.Spec.Selector != nil && n.Spec.Selector.MatchLabels != nil {
				// the new incarnation selects differently (its template follows, as validation demands)
				era := fmt.Sprint(abs(b) % 2)
				n.Spec.Selector.MatchLabels["era"] = era
				if n.Spec.Template.Labels == nil {
					n.Spec.Template.Labels = map[string]string{}
				}
				n.Spec.Template.Labels["era"] = era
				how = ", selector now " + metav1.FormatLabelSelector(n.Spec.Selector)
			}
			if b >= 100 {
				// the documented way of changing the immutable fields: delete with --cascade=orphan (the garbage collector
				// strips the dependents' owner references), create again with another governing service and claim list
				k := b - 100
				for _, p := range c.PodsIn(NS) {
					if isControlledBy(p.OwnerReferences, old.UID) {
						p.OwnerReferences = nil
						c.Put(p)
					}
				}
				for _, rv := range c.Revs() {
					if rv.Namespace == NS && isControlledBy(rv.OwnerReferences, old.UID) {
						rv.OwnerReferences = nil
						c.Put(rv)
					}
				}
				n.Spec.ServiceName = n.Spec.ServiceName + "-renamed"
				switch k % 3 {
				case 1:
					n.Spec.VolumeClaimTemplates = append(n.Spec.VolumeClaimTemplates, corev1.PersistentVolumeClaim{
						ObjectMeta: metav1.ObjectMeta{Name: fmt.Sprintf("added%d", len(n.Spec.VolumeClaimTemplates))},
						Spec: corev1.PersistentVolumeClaimSpec{
							AccessModes: []corev1.PersistentVolumeAccessMode{corev1.ReadWriteOnce},
							Resources:   corev1.ResourceRequirements{Requests: corev1.ResourceList{corev1.ResourceStorage: resource.MustParse("1Gi")}},
						}})
				case 2:
					if l := len(n.Spec.VolumeClaimTemplates); l > 0 {
						n.Spec.VolumeClaimTemplates = n.Spec.VolumeClaimTemplates[:l-1]
					}
				}
				how += fmt.Sprintf(", dependents orphaned, service now %q, %d claim templates", n.Spec.ServiceName, len(n.Spec.VolumeClaimTemplates))
			}
			c.Put(n)
			s.logf("user: set deleted and re-created (new uid %s%s)", c.Set(NS, s.Name).UID, how)
		}
	case OpSetRemove:
		if c.Remove(sim.GVRASts, NS, s.Name) {
			s.logf("user: set removed from the API")
		}
	case OpRestart:
		c.Restart()
		c.RefreshAll()
		if s.W != nil && s.W.EventMode {
			c.Enqueue(s.Key) // the initial list of the new controller
		}
		s.logf("controller restart")
	}
}

func abs(x int) int {
	if x < 0 {
		return -x
	}
	return x
}

// Reconcile runs one reconcile op (with its refresh mode, fault and interference) and feeds the
// record to the monitors.
func (s *Sys) Reconcile(op *Op) *sim.Record {
	c := s.C
	ev := s.W != nil && s.W.EventMode
	switch op.Refresh {
	case 0:
		if ev {
			s.SyncCachesNotify()
		} else {
			c.RefreshAll()
		}
	case 2:
		if ev {
			s.syncPodsNotify()
			c.RefreshPVCs()
		} else {
			c.RefreshPods()
			c.RefreshPVCs()
		}
	case 3:
		c.RefreshSet(NS, s.Name, ev)
	}
	if ev && !op.queued {
		// a reconcile of the history serves every event delivered before it started
		c.DrainQueue()
	}
	c.ListPerm = op.Perm
	n := 0
	faultDone, interDone := false, false
	fault1At, fault2Done := 0, false
	s.Fault2Hit = false
	pvcCreates, pvcLookups := 0, 0
	podRejected := false
	s.PVCFaulted = nil
	if op.PVCFault == 3 || op.PVCFault == 4 {
		c.PVCListerHook = func(name string) error {
			idx := pvcLookups
			pvcLookups++
			if idx != op.PVCIdx {
				return nil
			}
			s.PVCFaulted = append(s.PVCFaulted, name)
			if op.PVCFault == 3 {
				return fmt.Errorf("injected claim cache failure")
			}
			if p := c.PVC(NS, name); p != nil {
				c.CacheDeleteRaw(p)
			}
			return nil
		}
	}
	c.Intercept = func(a *sim.Action) *sim.Fault {
		n++
		if (op.PVCFault == 5 || op.PVCFault == 6) && a.Verb == "create" && a.Resource == "pods" && !podRejected {
			// the API server does not admit the pod: quota exceeded (403) or an invalid object (422)
			podRejected = true
			if op.PVCFault == 5 {
				return &sim.Fault{Err: apierrors.NewForbidden(schema.GroupResource{Resource: "pods"}, a.Name, fmt.Errorf("exceeded quota"))}
			}
			return &sim.Fault{Err: apierrors.NewInvalid(schema.GroupKind{Kind: "Pod"}, a.Name, nil)}
		}
		if (op.PVCFault == 1 || op.PVCFault == 2) && a.Verb == "create" && a.Resource == "persistentvolumeclaims" {
			idx := pvcCreates
			pvcCreates++
			if idx == op.PVCIdx {
				s.PVCFaulted = append(s.PVCFaulted, a.Name)
				if op.PVCFault == 1 {
					return &sim.Fault{Err: apierrors.NewInternalError(fmt.Errorf("injected claim create failure"))}
				}
				return &sim.Fault{Err: apierrors.NewTimeoutError("injected timeout (applied)", 1), Apply: true}
			}
		}
		if op.InterAt > 0 && n == op.InterAt && !interDone {
			interDone = true
			s.logf("  [interference before call %d: %s]", n, a)
			s.envOp(op.InterKind, op.InterA, op.InterB)
		}
		if op.FaultAt > 0 && n == op.FaultAt && !faultDone {
			faultDone = true
			fault1At = n
			return s.makeFault(op.Fault, a)
		}
		if op.Fault2 != 0 && faultDone && fault1At > 0 && n == fault1At+op.Fault2Off && !fault2Done {
			fault2Done = true
			s.Fault2Hit = true
			return s.makeFault(op.Fault2, a)
		}
		if op.FaultAt == -1 && !faultDone && a.Resource == "statefulsets" && a.Subresource == "status" && a.Verb == "update" {
			faultDone = true
			return s.makeFault(op.Fault, a)
		}
		if op.FaultAt == -6 && !faultDone && a.Resource == "pods" && a.Verb == "update" {
			faultDone = true
			fault1At = n
			return s.makeFault(op.Fault, a)
		}
		if op.FaultAt == -5 && !faultDone && a.Resource == "statefulsets" && a.Verb == "get" {
			faultDone = true
			fault1At = n
			return s.makeFault(op.Fault, a)
		}
		if op.FaultAt == -4 && !faultDone && a.Resource == "controllerrevisions" && a.Verb == "delete" {
			faultDone = true
			fault1At = n
			return s.makeFault(op.Fault, a)
		}
		if (op.FaultAt == -2 || op.FaultAt == -3) && !faultDone && a.Resource == "pods" && a.Verb == map[int]string{-2: "create", -3: "delete"}[op.FaultAt] {
			faultDone = true
			fault1At = n
			return s.makeFault(op.Fault, a)
		}
		return nil
	}
	var r *sim.Record
	if op.Worker {
		r = c.ReconcileWorker(s.Key)
	} else {
		r = c.Reconcile(s.Key)
	}
	c.Intercept = nil
	c.PVCListerHook = nil
	if ev && !op.queued && !op.Worker && (r.Err != nil || r.Crashed) {
		// a worker would have put the key back after a failed reconcile (and a restarted controller lists
		// everything again): the retry is pending in the queue
		c.Enqueue(s.Key)
	}
	s.Reconciles++
	s.Trace = append(s.Trace, func() string { return strings.TrimRight(r.Transcript(), "\n") })
	if s.OnRecord != nil {
		s.OnRecord(r, op)
	}
	return r
}

// FairRound: full cache refresh -> reconcile -> kubelet brings every pod the controller left in
// place to Running+Ready and finalises terminating pods.
func (s *Sys) FairRound() *sim.Record {
	r := s.Reconcile(&Op{K: OpReconcile})
	s.KubeletAll()
	return r
}

func (s *Sys) KubeletAll() {
	for _, p := range s.C.PodsIn(NS) {
		if p.DeletionTimestamp != nil {
			s.C.Kubelet(NS, p.Name, sim.KFinalize)
			continue
		}
		s.C.Kubelet(NS, p.Name, sim.KReady)
	}
}

func (s *Sys) Run(op *Op) {
	switch op.K {
	case OpReconcile:
		s.Reconcile(op)
	case OpSettle:
		n := 1 + abs(op.A)%6
		for i := 0; i < n; i++ {
			s.FairRound()
		}
	default:
		s.envOp(op.K, op.A, op.B)
	}
}

// ---------------------------------------------------------------------------------------------
// generators

func genSpec(rt *rapid.T, maxR int) SpecP { return genSpecSized(rt, maxR, false) }

func genSpecSized(rt *rapid.T, maxR int, big bool) SpecP {
	maxSlot, slotCounts, partitions := 8, []int{0, 0, 1, 1, 2, 3}, []int{0, 0, 0, 1, 2, 3, 4, 6, 9}
	if big {
		maxR, maxSlot, slotCounts, partitions = 9, 16, []int{0, 1, 2, 3, 4, 6}, []int{0, 0, 1, 2, 3, 5, 8, 11, 14, 17}
	}
	s := SpecP{
		Name:     rapid.SampledFrom([]string{"web", "web", "web-1", "a", "db-0-x"}).Draw(rt, "name"),
		R:        int32(rapid.IntRange(0, maxR).Draw(rt, "replicas")),
		Parallel: rapid.Bool().Draw(rt, "parallel"),
		Strategy: rapid.SampledFrom([]int{0, 0, 0, 0, 0, 0, 1, 1, 2, 2, 3}).Draw(rt, "strategy"),
		Limit:    rapid.SampledFrom([]int32{0, 1, 2, 3, 10, 10}).Draw(rt, "limit"),
		Claims:   rapid.SampledFrom([]int{0, 0, 0, 1, 2}).Draw(rt, "claims"),
	}
	ns := rapid.SampledFrom(slotCounts).Draw(rt, "nslots")
	seen := map[int32]bool{}
	for i := 0; i < ns; i++ {
		k := int32(rapid.IntRange(0, maxSlot).Draw(rt, "slot"))
		if !seen[k] {
			seen[k] = true
			s.Slots = append(s.Slots, k)
		}
	}
	if s.Strategy == 0 || s.Strategy == 3 {
		s.Partition = int32(rapid.SampledFrom(partitions).Draw(rt, "partition"))
	}
	if s.Claims > 0 {
		s.ClaimLabels = rapid.IntRange(0, 2).Draw(rt, "claimLabels") == 0
	}
	s.RichTemplates = rapid.IntRange(0, 2).Draw(rt, "richTemplates") == 0
	return s
}

func genHist(rt *rapid.T) []int {
	n := rapid.SampledFrom([]int{1, 1, 2, 2, 3}).Draw(rt, "histLen")
	h := []int{}
	for i := 0; i < n; i++ {
		t := rapid.IntRange(0, 3).Draw(rt, "tmpl")
		if len(h) > 0 && h[len(h)-1] == t {
			t = (t + 1) % 4
		}
		h = append(h, t)
	}
	return h
}

// genPods draws a constructed pod population over ordinals 0..8 (by construction, no rejection).
func genPods(rt *rapid.T, histLen int, orphans bool) []PodP {
	return genPodsSized(rt, histLen, orphans, false)
}

func genPodsSized(rt *rapid.T, histLen int, orphans, big bool) []PodP {
	var pods []PodP
	// a fifth of the populations also reach two-digit ordinals (9..12): name order and numeric order differ there
	maxOrd := 8
	if rapid.IntRange(0, 4).Draw(rt, "twoDigitOrdinals") == 0 {
		maxOrd = 12
	}
	if big {
		maxOrd = 16
	}
	for ord := 0; ord <= maxOrd; ord++ {
		// presence is biased towards low ordinals
		pres := rapid.IntRange(0, 9).Draw(rt, "present")
		limit := 7
		if ord > 4 {
			limit = 3
		}
		if ord > 8 {
			limit = 5
		}
		if big {
			limit = 5
		}
		if pres >= limit {
			continue
		}
		p := PodP{Ord: ord}
		p.Phase = rapid.SampledFrom([]int{3, 3, 3, 3, 3, 3, 3, 3, 3, 3, 2, 2, 1, 1, 0, 0, 4, 4, 5, 5, 6, 7, 8}).Draw(rt, "phase")
		if (p.Phase >= 1 && p.Phase <= 3) || p.Phase >= 6 {
			p.Term = rapid.IntRange(0, 7).Draw(rt, "term") == 0
		}
		p.Rev = rapid.SampledFrom([]int{histLen - 1, histLen - 1, histLen - 1, 0, rapid.IntRange(0, histLen-1).Draw(rt, "revIdx"), -1}).Draw(rt, "rev")
		if orphans && !p.Term {
			p.Orphan = rapid.IntRange(0, 9).Draw(rt, "orphan") == 0
		}
		p.NoIdentity = rapid.IntRange(0, 9).Draw(rt, "noIdentity") == 0
		p.AltRef = !p.Orphan && rapid.IntRange(0, 14).Draw(rt, "altRef") == 0
		p.Bare = rapid.IntRange(0, 9).Draw(rt, "bare") == 0
		pods = append(pods, p)
	}
	return pods
}

type opWeights map[int]int

func genOps(rt *rapid.T, maxOps int, w opWeights, faults, interference bool) []Op {
	var kinds []int
	for k := 0; k < numOpKinds; k++ {
		for i := 0; i < w[k]; i++ {
			kinds = append(kinds, k)
		}
	}
	n := rapid.IntRange(0, maxOps).Draw(rt, "nops")
	ops := make([]Op, 0, n)
	for i := 0; i < n; i++ {
		op := Op{K: rapid.SampledFrom(kinds).Draw(rt, "op")}
		switch op.K {
		case OpReconcile:
			op.Refresh = rapid.SampledFrom([]int{0, 0, 0, 0, 1, 1, 2, 3}).Draw(rt, "refresh")
			if rapid.IntRange(0, 3).Draw(rt, "permute") == 0 {
				op.Perm = uint64(rapid.IntRange(1, 1<<20).Draw(rt, "perm"))
			}
			if faults && rapid.IntRange(0, 5).Draw(rt, "faulty") == 0 {
				op.FaultAt = rapid.IntRange(1, 12).Draw(rt, "faultAt")
				// a third of the faults are aimed: at the status write, at the first pod create, at the first pod delete
				switch rapid.IntRange(0, 8).Draw(rt, "faultTarget") {
				case 0:
					op.FaultAt = -1
				case 1:
					op.FaultAt = -2
				case 2:
					op.FaultAt = -3
				case 3:
					op.FaultAt = -6
				}
				op.Fault = rapid.SampledFrom([]int{FServerError, FTimeoutLost, FTimeoutApplied, FConflict, FNotFound, FAlreadyExists, FInvalid, FForbidden}).Draw(rt, "fault")
			}
			if interference && rapid.IntRange(0, 4).Draw(rt, "interfere") == 0 {
				op.InterAt = rapid.IntRange(1, 10).Draw(rt, "interAt")
				op.InterKind = rapid.SampledFrom([]int{OpKubelet, OpKubelet, OpRefreshAll, OpRefreshPod, OpRefreshSet, OpEditReplicas, OpEditSlotAdd, OpEditTemplate, OpUserDeletePod, OpScaleInAt}).Draw(rt, "interKind")
				op.InterA = rapid.IntRange(0, 20).Draw(rt, "interA")
				op.InterB = rapid.IntRange(0, 20).Draw(rt, "interB")
			}
		default:
			op.A = rapid.IntRange(0, 20).Draw(rt, "a")
			op.B = rapid.IntRange(0, 20).Draw(rt, "b")
		}
		ops = append(ops, op)
	}
	return ops
}

var defaultWeights = opWeights{
	OpReconcile: 10, OpKubelet: 8, OpRefreshAll: 1, OpRefreshPod: 2, OpRefreshSet: 1, OpEditReplicas: 2, OpEditSlotAdd: 2,
	OpEditSlotRemove: 1, OpEditTemplate: 2, OpEditPartition: 1, OpEditMeta: 1, OpUserDeletePod: 1, OpSettle: 2, OpScaleInAt: 2,
	OpAddOrphanPod: 1, OpOrphanPod: 1, OpEditSlotsRaw: 1,
}

func summarizeWorld(w World) map[string]interface{} {
	var ops []string
	for _, o := range w.Ops {
		ops = append(ops, o.String())
	}
	return map[string]interface{}{"spec": w.Spec, "template_history": w.Hist, "cur_rev": w.CurRev, "pods": w.Pods, "ops": ops, "big": w.Big}
}

// Converge runs the fair closing schedule (no faults, no user edits; each round = full cache
// refresh, one reconcile, kubelet brings every remaining pod to Running+Ready and finalises
// terminating pods) until a round issues no write and leaves the API state unchanged.
// It reports a repeated state with writes still flowing as a livelock.
func (s *Sys) Converge(maxRounds int) (fixed bool, rounds int, livelock bool) {
	seen := map[string]int{}
	prev := s.C.Dump()
	lag := 0
	if s.W != nil {
		lag = s.W.CloseLag
	}
	for i := 0; i < maxRounds*(lag+1); i++ {
		r := s.Reconcile(&Op{K: OpReconcile})
		writes := len(r.Writes())
		err := r.Err
		for j := 0; j < lag; j++ {
			rr := s.Reconcile(&Op{K: OpReconcile})
			writes += len(rr.Writes())
			if rr.Err != nil {
				err = rr.Err
			}
		}
		s.KubeletAll()
		cur := s.C.Dump()
		if writes == 0 && err == nil && cur == prev {
			return true, i + 1, false
		}
		if writes > 0 {
			if _, dup := seen[cur]; dup {
				return false, i + 1, true
			}
			seen[cur] = i
		}
		prev = cur
	}
	return false, maxRounds, false
}

// syncPodsNotify brings the pod cache up to date object by object, delivering the notifications.
func (s *Sys) syncPodsNotify() (changed bool) {
	names := map[string]bool{}
	for _, p := range s.C.PodsIn(NS) {
		names[p.Name] = true
	}
	for _, p := range s.C.CachePods() {
		if p.Namespace == NS {
			names[p.Name] = true
		}
	}
	for _, n := range s.C.PendingPodEvents(NS) {
		names[n] = true
	}
	for _, n := range keys(names) {
		if s.C.RefreshPod(NS, n, true) {
			changed = true
		}
	}
	return
}

// SyncCachesNotify: the informers catch up with the API, every change delivered as an event.
func (s *Sys) SyncCachesNotify() (changed bool) {
	changed = s.syncPodsNotify()
	if s.C.RefreshSet(NS, s.Name, true) {
		changed = true
	}
	s.C.RefreshPVCs()
	return
}

// ConvergeEvents is the event-driven closing schedule: caches catch up (with notifications), the real
// worker processes whatever the handlers queued, the kubelet readies / finalises pods; repeated until
// nothing changes, the queue is empty and the caches are current.
func (s *Sys) ConvergeEvents(maxRounds int) (fixed bool, rounds int) {
	for i := 0; i < maxRounds; i++ {
		changed := s.SyncCachesNotify()
		worked := false
		burst := 64
		if s.queueBurst > 0 {
			burst = s.queueBurst
		}
		for n := 0; n < burst && s.C.QueueLen() > 0; n++ {
			op := &Op{K: OpReconcile, Refresh: 1, queued: true}
			r := s.C.ReconcileNextQueued()
			if r == nil {
				break
			}
			worked = true
			s.Reconciles++
			s.Trace = append(s.Trace, func() string { return "[queued] " + strings.TrimRight(r.Transcript(), "\n") })
			if s.OnRecord != nil {
				s.OnRecord(r, op)
			}
			// the reconcile's own writes come back as events
			if s.SyncCachesNotify() {
				changed = true
			}
		}
		before := s.C.Dump()
		s.KubeletAll()
		if !changed && !worked && s.C.Dump() == before && s.C.QueueLen() == 0 {
			return true, i + 1
		}
	}
	return false, maxRounds
}
