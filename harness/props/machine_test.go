package props

import (
	"encoding/json"
	"fmt"
	"os"
	"testing"

	"pgregory.net/rapid"

	"verifharness/sim"
)

// Shared driver for the properties that are monitors over every reconcile of a random history.

type worldOpts struct {
	maxR          int
	maxOps        int
	weights       opWeights
	faults        bool
	interference  bool
	constructed   int // chance out of 10 that the initial pod population is constructed
	orphans       bool
	forceOrdered  bool
	forceParallel bool
	forceRolling  bool
	orphanRevs    bool
	eventMode     bool
	heldRollouts  bool // construct partition-held rollouts even when constructed == 0
	untyped       bool // also draw sets whose updateStrategy.type is omitted (the CRD does not default it)
}

func (w World) Summary() interface{} { return summarizeWorld(w) }

func genWorld(rt *rapid.T, o worldOpts) World {
	// thorough tier: a quarter of the worlds are drawn from wider ranges
	big := thorough() && rapid.IntRange(0, 3).Draw(rt, "big") == 0
	w := World{Spec: genSpecSized(rt, o.maxR, big), CurRev: -1, Big: big}
	if big {
		o.maxOps += o.maxOps / 2
	}
	if o.forceOrdered {
		w.Spec.Parallel = false
	}
	if o.forceParallel {
		w.Spec.Parallel = true
	}
	if o.forceRolling && w.Spec.Strategy == 2 {
		w.Spec.Strategy = 0
	}
	if o.untyped && rapid.IntRange(0, 7).Draw(rt, "untypedStrategy") == 0 {
		// "Default is RollingUpdate" (types.go): type omitted, with a rollingUpdate{partition} block or without one
		w.Spec.Strategy = rapid.SampledFrom([]int{4, 4, 5}).Draw(rt, "untypedKind")
		w.Spec.Partition = int32(rapid.SampledFrom([]int{0, 1, 2, 3, 4}).Draw(rt, "untypedPartition"))
	}
	if o.untyped && !w.Spec.Parallel && rapid.IntRange(0, 7).Draw(rt, "policyOmitted") == 0 {
		w.Spec.PolicyOmitted = true
	}
	w.Hist = genHist(rt)
	held := false
	if (o.constructed > 0 || o.heldRollouts) && !(w.Spec.Strategy >= 4) && rapid.IntRange(0, 7).Draw(rt, "heldRollout") == 0 {
		// a rollout held by the partition: pods at or above it updated and Ready, pods below it at the previous
		// (current) revision, one of them possibly Failed / Succeeded / unready
		w.Spec.Strategy = 0
		if w.Spec.R < 2 {
			w.Spec.R = int32(rapid.IntRange(2, 4).Draw(rt, "heldR"))
		}
		w.Spec.Slots = nil
		w.Spec.Partition = int32(rapid.IntRange(1, int(w.Spec.R)).Draw(rt, "heldPartition"))
		if len(w.Hist) < 2 {
			w.Hist = []int{w.Hist[0], (w.Hist[0] + 1) % 4}
		}
		held = true
		n := len(w.Hist)
		w.CurRev = n - 2
		odd := rapid.IntRange(0, int(w.Spec.Partition)-1).Draw(rt, "heldOdd")
		for ord := 0; ord < int(w.Spec.R); ord++ {
			pp := PodP{Ord: ord, Phase: 3, Rev: n - 1}
			if ord < int(w.Spec.Partition) {
				pp.Rev = n - 2
				if ord == odd {
					pp.Phase = rapid.SampledFrom([]int{4, 5, 4, 2, 3}).Draw(rt, "heldPhase")
				}
			}
			w.Pods = append(w.Pods, pp)
		}
	} else if rapid.IntRange(0, 9).Draw(rt, "constructed") < o.constructed {
		w.Pods = genPodsSized(rt, len(w.Hist), o.orphans, big)
		if len(w.Hist) > 1 && rapid.Bool().Draw(rt, "repointCurrent") {
			w.CurRev = rapid.IntRange(0, len(w.Hist)-1).Draw(rt, "curRev")
		}
	}
	if o.orphanRevs && rapid.IntRange(0, 3).Draw(rt, "hasOrphanRevs") == 0 {
		n := rapid.IntRange(1, 2).Draw(rt, "nOrphanRevs")
		for i := 0; i < n; i++ {
			w.OrphanRevs = append(w.OrphanRevs, ORev{Marker: rapid.Bool().Draw(rt, "orMarker"), Equal: rapid.Bool().Draw(rt, "orEqual"), Rev: int64(rapid.IntRange(0, 6).Draw(rt, "orRev"))})
		}
	}
	w.Ops = genOps(rt, o.maxOps, o.weights, o.faults, o.interference)
	needsRepair := false
	for _, pp := range w.Pods {
		if pp.NoIdentity && !pp.Orphan && pp.Phase == 3 && !pp.Term {
			needsRepair = true
		}
	}
	if needsRepair && o.faults && rapid.Bool().Draw(rt, "repairFault") {
		// a pod needs its identity repaired in place and that very update is refused or fails: the first reconciles
		// meet it head-on (a rejected repair is no reason to do anything else to the pod)
		first := Op{K: OpReconcile, FaultAt: -6, Fault: rapid.SampledFrom([]int{FInvalid, FInvalid, FForbidden, FServerError, FConflict, FNotFound}).Draw(rt, "repairFaultKind")}
		w.Ops = append([]Op{first, {K: OpReconcile}}, w.Ops...)
	}
	if held && o.faults && rapid.Bool().Draw(rt, "heldCreateFault") {
		// the held rollout meets a failing pod create (or delete) right away: the reconcile that replaces the
		// finished pod below the partition is the one whose partial work must not be taken for a completed rollout
		first := Op{K: OpReconcile, FaultAt: rapid.SampledFrom([]int{-2, -2, -3}).Draw(rt, "heldFaultAt"),
			Fault: rapid.SampledFrom([]int{FServerError, FTimeoutLost, FAlreadyExists, FTimeoutApplied}).Draw(rt, "heldFault")}
		w.Ops = append([]Op{first, {K: OpReconcile}}, w.Ops...)
	}
	w.CloseLag = rapid.SampledFrom([]int{0, 0, 1, 1, 2}).Draw(rt, "closeLag")
	w.EventMode = o.eventMode && rapid.IntRange(0, 2).Draw(rt, "eventMode") == 0
	return w
}

func worldFP(w World) string {
	b, _ := json.Marshal(w)
	return string(b)
}

// runHistory builds the world, runs its ops feeding every reconcile's view to mon.
func runHistory(rep Rep, w World, mon func(v *View, op *Op, s *Sys)) *Sys {
	s := BuildWorld(rep, &w)
	s.OnRecord = func(r *sim.Record, op *Op) {
		if r.Panic != nil {
			rep.Violate("panic", "reconcile panicked: %v\n%s\n%s", r.Panic, r.Stack, s.Transcript())
		}
		v := NewView(r)
		if v == nil {
			return
		}
		mon(v, op, s)
	}
	for i := range w.Ops {
		s.Run(&w.Ops[i])
	}
	if os.Getenv("VERIF_TRACE") != "" {
		fmt.Println(s.Transcript())
	}
	return s
}

var histOpts = worldOpts{maxR: 5, maxOps: 40, weights: defaultWeights, faults: true, interference: true, constructed: 6, orphans: true}

// ---------------------------------------------------------------------------------------------
// C03

func runC03(rep Rep, w World) {
	nt := false
	s := runHistory(rep, w, func(v *View, op *Op, s *Sys) {
		d := monC03(rep, v)
		if d > 0 {
			hasCond, hasDesired := len(v.Condemned()) > 0, false
			for ord := range v.Claimed {
				if v.Dset[ord] {
					hasDesired = true
				}
			}
			slotBelow := false
			for sl := range v.Slots {
				if sl >= 0 && sl < v.MaxD {
					slotBelow = true
				}
			}
			if (hasCond && hasDesired) || slotBelow {
				nt = true
			}
		}
	})
	defer s.Close()
	rep.FP(worldFP(w))
	if nt {
		rep.Nontrivial()
		rep.Label("nontrivial:delete-with-condemned-and-desired-or-slot-below-top")
	}
}

func TestC03(t *testing.T) {
	o := histOpts
	o.untyped = true
	w := opWeights{}
	for k, v := range defaultWeights {
		w[k] = v
	}
	w[OpAddStrayPod] = 1
	o.weights = w
	checkCases(t, "C03", func(rt *rapid.T) World { return genWorld(rt, o) }, runC03)
}
func TestRegressC03(t *testing.T) { regress(t, "C03", runC03) }

// ---------------------------------------------------------------------------------------------
// C04

func runC04(rep Rep, w World) {
	nt := false
	s := runHistory(rep, w, func(v *View, op *Op, s *Sys) {
		c := monC04(rep, v)
		if c > 0 {
			vacSlotBelow := false
			for sl := range v.Slots {
				if sl >= 0 && sl < v.MaxD && v.ByName[v.PodName(sl)] == nil {
					vacSlotBelow = true
				}
			}
			occupied := false
			for ord := range v.Claimed {
				if v.Dset[ord] {
					occupied = true
				}
			}
			if vacSlotBelow || occupied {
				nt = true
			}
		}
		if v.Deleting && len(v.Vacant()) > 0 {
			nt = true
			rep.Label("deleting-set-with-vacancies")
		}
	})
	defer s.Close()
	rep.FP(worldFP(w))
	if nt {
		rep.Nontrivial()
	}
}

var c04Opts = func() worldOpts {
	o := histOpts
	w := opWeights{}
	for k, v := range defaultWeights {
		w[k] = v
	}
	w[OpMarkDeleting] = 1
	o.weights = w
	return o
}()

func TestC04(t *testing.T) {
	checkCases(t, "C04", func(rt *rapid.T) World { return genWorld(rt, c04Opts) }, runC04)
}
func TestRegressC04(t *testing.T) { regress(t, "C04", runC04) }

// ---------------------------------------------------------------------------------------------
// C05

func runC05(rep Rep, w World) {
	nt := false
	s := runHistory(rep, w, func(v *View, op *Op, s *Sys) {
		if monC05(rep, v) {
			nt = true
		}
	})
	defer s.Close()
	rep.FP(worldFP(w))
	if nt {
		rep.Nontrivial()
	}
}

var c05Opts = func() worldOpts { o := histOpts; o.forceOrdered = true; o.untyped = true; return o }()

// genC05: the ordered worlds; now and then with claim templates and one pod whose volumes do not cover them (its
// storage is repaired in place - the one pod-control call after which an ordered pass keeps going), the repair
// meeting a 422 at the first pod update of some reconcile
func genC05(rt *rapid.T) World {
	w := genWorld(rt, c05Opts)
	if len(w.Pods) > 0 && rapid.IntRange(0, 5).Draw(rt, "storageRepair") == 0 {
		if w.Spec.Claims == 0 {
			w.Spec.Claims = 1
		}
		w.Pods[rapid.IntRange(0, len(w.Pods)-1).Draw(rt, "storageRepairPod")].NoClaimVolumes = true
		for i := range w.Ops {
			if op := &w.Ops[i]; op.K == OpReconcile && op.FaultAt == 0 && rapid.IntRange(0, 1).Draw(rt, "repairRejected") == 0 {
				op.FaultAt, op.Fault = -6, FInvalid
				break
			}
		}
	}
	return w
}

func TestC05(t *testing.T) {
	checkCases(t, "C05", genC05, runC05)
}
func TestRegressC05(t *testing.T) { regress(t, "C05", runC05) }

// ---------------------------------------------------------------------------------------------
// C07

func runC07(rep Rep, w World) {
	nt := false
	s := runHistory(rep, w, func(v *View, op *Op, s *Sys) {
		if monC07(rep, v) {
			nt = true
		}
	})
	defer s.Close()
	rep.FP(worldFP(w))
	if nt {
		rep.Nontrivial()
	}
}

var c07Opts = func() worldOpts {
	o := histOpts
	w := opWeights{}
	for k, v := range defaultWeights {
		w[k] = v
	}
	w[OpEditTemplate] = 4
	w[OpEditPartition] = 2
	w[OpSettle] = 4
	w[OpEditStrategy] = 1
	o.weights = w
	o.untyped = true
	return o
}()

func TestC07(t *testing.T) {
	checkCases(t, "C07", func(rt *rapid.T) World { return genWorld(rt, c07Opts) }, runC07)
}
func TestRegressC07(t *testing.T) { regress(t, "C07", runC07) }

// ---------------------------------------------------------------------------------------------
// C14

func runC14(rep Rep, w World) {
	nt := false
	s := runHistory(rep, w, func(v *View, op *Op, s *Sys) {
		// "rolling updates still take down one pod at a time": the rolling-update discipline of C07 applies
		// under Parallel as well (an update delete needs every higher desired pod up to date and healthy)
		if len(v.Odd) == 0 { // a stray S-0<k> may hold slot k: "every higher desired pod is healthy" cannot be read off the canonical names then
			monC07(rep, v)
		}
		k, m, by := monC14(rep, v)
		if k+m >= 2 && by {
			nt = true
		}
		if k+m >= 1 {
			rep.Label("parallel-reconcile-with-scaling-work")
		}
	})
	defer s.Close()
	rep.FP(worldFP(w))
	if nt {
		rep.Nontrivial()
	}
}

var c14Opts = func() worldOpts {
	o := histOpts
	o.forceParallel = true
	o.constructed = 8
	w := opWeights{}
	for k, v := range defaultWeights {
		w[k] = v
	}
	w[OpClaimTerminating] = 1
	w[OpAddStrayPod] = 1
	o.weights = w
	return o
}()

// genC14: the usual Parallel worlds, and once in a while a very large set that starts from nothing ("all k creations" has
// no upper bound in the property; a controller that budgets its writes per pass would show only here)
func genC14(rt *rapid.T) World {
	rare := 149
	if thorough() {
		rare = 1499 // (a huge set costs about a thousand ordinary cases)
	}
	if rapid.IntRange(0, rare).Draw(rt, "hugeSet") == 0 {
		n := int32(rapid.IntRange(501, 560).Draw(rt, "hugeReplicas"))
		return World{Spec: SpecP{Name: "web", R: n, Parallel: true, Limit: 10}, Hist: []int{0},
			Ops: []Op{{K: OpReconcile}, {K: OpKubelet, A: 3, B: 0}, {K: OpEditReplicas, A: 0}, {K: OpReconcile}}}
	}
	return genWorld(rt, c14Opts)
}

func TestC14(t *testing.T) {
	checkCases(t, "C14", genC14, runC14)
}
func TestRegressC14(t *testing.T) { regress(t, "C14", runC14) }

// ---------------------------------------------------------------------------------------------
// C03 metamorphic: putting ordinal k into delete-slots removes pod k and no other pod

type MetaCase struct {
	Spec  SpecP `json:"spec"`
	Tmpl  int   `json:"tmpl"`
	K     int   `json:"k"`
	Noise []Op  `json:"noise"`
}

func (m MetaCase) Summary() interface{} {
	var ops []string
	for _, o := range m.Noise {
		ops = append(ops, o.String())
	}
	return map[string]interface{}{"spec": m.Spec, "k_index": m.K, "noise": ops}
}

func genMeta(rt *rapid.T) MetaCase {
	m := MetaCase{Spec: genSpec(rt, 5), Tmpl: rapid.IntRange(0, 3).Draw(rt, "tmpl"), K: rapid.IntRange(0, 8).Draw(rt, "k")}
	if m.Spec.R == 0 {
		m.Spec.R = 1
	}
	w := opWeights{OpReconcile: 8, OpKubelet: 6, OpRefreshAll: 1, OpRefreshPod: 2, OpRefreshSet: 1, OpEditMeta: 1}
	m.Noise = genOps(rt, 25, w, false, true)
	for i := range m.Noise {
		o := &m.Noise[i]
		if o.K == OpKubelet {
			// noise never fails a pod: only ready / unready / run / schedule
			o.B = []int{int(sim.KReady), int(sim.KUnready), int(sim.KRun), int(sim.KSchedule)}[o.B%4]
		}
		if o.InterAt > 0 {
			switch o.InterKind {
			case OpKubelet:
				o.InterB = []int{int(sim.KReady), int(sim.KUnready), int(sim.KRun), int(sim.KSchedule)}[o.InterB%4]
			case OpRefreshAll, OpRefreshPod, OpRefreshSet:
			default:
				o.InterKind = OpRefreshPod
			}
		}
	}
	return m
}

func runC03Meta(rep Rep, m MetaCase) {
	w := World{Spec: m.Spec, Hist: []int{m.Tmpl}, CurRev: -1}
	s := BuildWorld(rep, &w)
	defer s.Close()
	budget := 4*(int(m.Spec.R)+len(m.Spec.Slots)) + 16
	if fixed, _, _ := s.Converge(budget); !fixed {
		rep.Exclude("meta: initial world did not converge (C02's business)")
	}
	set := s.Set()
	D := helperOrdinals(set)
	if len(D) == 0 {
		rep.Exclude("meta: empty desired set")
	}
	k := D[m.K%len(D)]
	uids := map[string]string{}
	for _, p := range s.C.PodsIn(NS) {
		uids[p.Name] = string(p.UID)
	}
	victim := fmt.Sprintf("%s-%d", s.Name, k)
	deleted := map[string]bool{}
	s.OnRecord = func(r *sim.Record, op *Op) {
		for _, a := range r.Actions {
			if a.Resource == "pods" && a.Verb == "delete" {
				deleted[a.Name] = true
				if a.Name != victim {
					rep.Violate("meta/scale-in-at-k-deleted-another-pod", "scale-in at ordinal %d deleted %s\n%s", k, a.Name, s.Transcript())
				}
			}
		}
	}
	s.envOp(OpScaleInAt, indexOf(D, k), 0)
	for i := range m.Noise {
		s.Run(&m.Noise[i])
	}
	if fixed, _, _ := s.Converge(budget + 8); !fixed {
		rep.Violate("meta/no-convergence-after-scale-in", "did not reach a fixed point after scale-in at %d\n%s", k, s.Transcript())
	}
	if !deleted[victim] {
		rep.Violate("meta/victim-not-deleted", "pod %s was never deleted after ordinal %d was put into delete-slots\n%s", victim, k, s.Transcript())
	}
	for _, p := range s.C.PodsIn(NS) {
		if p.Name == victim {
			rep.Violate("meta/victim-still-present", "pod %s still present at the fixed point\n%s", victim, s.Transcript())
		}
		if old, ok := uids[p.Name]; ok && old != string(p.UID) {
			rep.Violate("meta/other-pod-restarted", "pod %s was replaced (uid %s -> %s) by a scale-in at %d\n%s", p.Name, old, p.UID, k, s.Transcript())
		}
		delete(uids, p.Name)
	}
	delete(uids, victim)
	if len(uids) > 0 {
		rep.Violate("meta/other-pod-gone", "pods %v disappeared after scale-in at %d\n%s", uids, k, s.Transcript())
	}
	rep.FP(m.Spec, k, len(m.Noise), worldFP(World{Ops: m.Noise}))
	rep.Label("meta-case")
	if k < D[len(D)-1] {
		rep.Nontrivial()
		rep.Label("meta:k-below-top")
	}
}

func indexOf(xs []int, x int) int {
	for i, v := range xs {
		if v == x {
			return i
		}
	}
	return 0
}

func TestC03Meta(t *testing.T)        { checkCases(t, "C03", genMeta, runC03Meta) }
func TestRegressC03Meta(t *testing.T) { regress(t, "C03Meta", runC03Meta) }
