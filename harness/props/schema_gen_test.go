package props

import (
	"fmt"
	"reflect"
	"time"

	appsv1 "k8s.io/api/apps/v1"
	"k8s.io/apimachinery/pkg/api/resource"
	metav1 "k8s.io/apimachinery/pkg/apis/meta/v1"
	"k8s.io/apimachinery/pkg/runtime"
	"k8s.io/apimachinery/pkg/util/intstr"
	"pgregory.net/rapid"

	asv1 "github.com/pingcap/advanced-statefulset/client/apis/apps/v1"
)

// Whole-schema generation: rapid.MakeCustom reflects over every field of the StatefulSet types
// (nil vs empty collections, nil vs non-nil optional pointers included). The overrides keep the
// values inside "what a JSON API can carry": times at second precision, *Time never pointing at
// the zero time (it marshals to null and returns as nil), well-formed quantities, FieldsV1 with
// valid JSON, IntOrString with a consistent discriminator, valid UTF-8 strings.

func anyGen[V any](g *rapid.Generator[V]) *rapid.Generator[any] {
	return rapid.Map(g, func(v V) any { return v })
}

var genTime = rapid.Custom(func(t *rapid.T) metav1.Time {
	if rapid.IntRange(0, 4).Draw(t, "zeroTime") == 0 {
		return metav1.Time{}
	}
	sec := rapid.Int64Range(1, 4102444800).Draw(t, "unix") // 1970 .. 2100
	return metav1.NewTime(time.Unix(sec, 0).UTC())
})

var genTimePtr = rapid.Custom(func(t *rapid.T) *metav1.Time {
	if rapid.Bool().Draw(t, "nilTime") {
		return nil
	}
	sec := rapid.Int64Range(1, 4102444800).Draw(t, "unix")
	v := metav1.NewTime(time.Unix(sec, 0).UTC())
	return &v
})

var genMicroTime = rapid.Custom(func(t *rapid.T) metav1.MicroTime {
	sec := rapid.Int64Range(0, 4102444800).Draw(t, "unixMicro")
	if sec == 0 {
		return metav1.MicroTime{}
	}
	return metav1.NewMicroTime(time.Unix(sec, 0).UTC())
})

var genQuantity = rapid.Custom(func(t *rapid.T) resource.Quantity {
	s := rapid.SampledFrom([]string{"0", "1", "100m", "1000m", "0.1", "1u", "1Gi", "1500Mi", "2", "1e3", "128974848", "129e6", "123Ki", "5", "0.5", "1.5Gi", "3k"}).Draw(t, "quantity")
	return resource.MustParse(s)
})

var genFieldsV1 = rapid.Custom(func(t *rapid.T) metav1.FieldsV1 {
	s := rapid.SampledFrom([]string{"", "{}", `{"f:spec":{}}`, `{"f:metadata":{"f:labels":{".":{},"f:app":{}}}}`}).Draw(t, "fieldsV1")
	if s == "" {
		return metav1.FieldsV1{}
	}
	return metav1.FieldsV1{Raw: []byte(s)}
})

// *FieldsV1: nil or non-empty (a pointer to an empty FieldsV1 marshals to null and returns as nil)
var genFieldsV1Ptr = rapid.Custom(func(t *rapid.T) *metav1.FieldsV1 {
	s := rapid.SampledFrom([]string{"", "{}", `{"f:spec":{}}`, `{"f:metadata":{"f:labels":{".":{},"f:app":{}}}}`}).Draw(t, "fieldsV1p")
	if s == "" {
		return nil
	}
	return &metav1.FieldsV1{Raw: []byte(s)}
})

var genRawExtension = rapid.Custom(func(t *rapid.T) runtime.RawExtension {
	s := rapid.SampledFrom([]string{"", "{}", `{"a":1}`}).Draw(t, "rawExt")
	if s == "" {
		return runtime.RawExtension{}
	}
	return runtime.RawExtension{Raw: []byte(s)}
})

var genIntOrString = rapid.Custom(func(t *rapid.T) intstr.IntOrString {
	if rapid.Bool().Draw(t, "isInt") {
		return intstr.FromInt32(rapid.Int32Range(-5, 70000).Draw(t, "intVal"))
	}
	return intstr.FromString(rapid.SampledFrom([]string{"", "http", "25%", "metrics"}).Draw(t, "strVal"))
})

var genString = rapid.Custom(func(t *rapid.T) string {
	switch rapid.IntRange(0, 9).Draw(t, "strKind") {
	case 0:
		return ""
	case 1:
		return rapid.StringMatching(`[a-z0-9]([-a-z0-9]{0,12}[a-z0-9])?`).Draw(t, "dns")
	case 2:
		return rapid.SampledFrom([]string{"héllo wörld", "日本語", "a\"b\\c", "<&>", "line\nbreak", "tab\t", " ", "🙂"}).Draw(t, "unicode")
	case 3:
		// strings that mean something to the code under test wherever they turn up (apiVersion of a
		// managedFields entry or an owner reference, kind, annotation keys and values, …)
		return rapid.SampledFrom([]string{"apps/v1", "apps.pingcap.com/v1", "v1", "StatefulSet", "delete-slots", "paused-reconcile", "true", "[1,2]",
			"apps.pingcap.com/upgrade-to-asts", "controller-revision-hash", "FieldsV1", "Update", "RollingUpdate", "OnDelete", "Parallel",
			"a && b > /dev/null", "<none>", "x<y&z>", "\u2028"}).Draw(t, "meaningful")
	default:
		return rapid.StringMatching(`[A-Za-z0-9_./:-]{1,10}`).Draw(t, "plain")
	}
})

func makeCfg() rapid.MakeConfig {
	return rapid.MakeConfig{
		Types: map[reflect.Type]*rapid.Generator[any]{
			reflect.TypeOf(metav1.Time{}):          anyGen(genTime),
			reflect.TypeOf(&metav1.Time{}):         anyGen(genTimePtr),
			reflect.TypeOf(metav1.MicroTime{}):     anyGen(genMicroTime),
			reflect.TypeOf(resource.Quantity{}):    anyGen(genQuantity),
			reflect.TypeOf(metav1.FieldsV1{}):      anyGen(genFieldsV1),
			reflect.TypeOf(&metav1.FieldsV1{}):     anyGen(genFieldsV1Ptr),
			reflect.TypeOf(runtime.RawExtension{}): anyGen(genRawExtension),
			reflect.TypeOf(intstr.IntOrString{}):   anyGen(genIntOrString),
		},
		Kinds: map[reflect.Kind]*rapid.Generator[any]{
			reflect.String: anyGen(genString),
		},
	}
}

var (
	genBuiltinSet  = rapid.MakeCustom[appsv1.StatefulSet](makeCfg())
	genAdvancedSet = rapid.MakeCustom[asv1.StatefulSet](makeCfg())
)

// populated counts non-zero leaf-ish fields (a rough size measure for the non-triviality rule)
// and reports whether a nil-vs-empty collection distinction occurs.
func populated(v reflect.Value, depth int) (n int, emptyColl bool) {
	if depth > 12 {
		return 0, false
	}
	switch v.Kind() {
	case reflect.Ptr, reflect.Interface:
		if v.IsNil() {
			return 0, false
		}
		a, b := populated(v.Elem(), depth+1)
		return a + 1, b
	case reflect.Struct:
		for i := 0; i < v.NumField(); i++ {
			if !v.Type().Field(i).IsExported() {
				continue
			}
			a, b := populated(v.Field(i), depth+1)
			n += a
			emptyColl = emptyColl || b
		}
		return
	case reflect.Slice, reflect.Map:
		if v.IsNil() {
			return 0, false
		}
		if v.Len() == 0 {
			return 1, true
		}
		if v.Kind() == reflect.Slice {
			for i := 0; i < v.Len() && i < 8; i++ {
				a, b := populated(v.Index(i), depth+1)
				n += a
				emptyColl = emptyColl || b
			}
		} else {
			n += v.Len()
		}
		return n + 1, emptyColl
	default:
		if v.IsZero() {
			return 0, false
		}
		return 1, false
	}
}

// diffPath finds the first path at which two values differ under Semantic.DeepEqual.
func diffPath(a, b reflect.Value, path string, depth int) string {
	if depth > 14 {
		return path
	}
	if !a.IsValid() || !b.IsValid() {
		return path
	}
	if semanticEqual(a, b) {
		return ""
	}
	switch a.Kind() {
	case reflect.Ptr:
		if a.IsNil() || b.IsNil() {
			return path + fmt.Sprintf(" (nil=%v vs nil=%v)", a.IsNil(), b.IsNil())
		}
		return diffPath(a.Elem(), b.Elem(), path, depth+1)
	case reflect.Struct:
		if a.Type() == reflect.TypeOf(resource.Quantity{}) || a.Type() == reflect.TypeOf(metav1.Time{}) {
			return path + fmt.Sprintf(" (%v vs %v)", a.Interface(), b.Interface())
		}
		for i := 0; i < a.NumField(); i++ {
			if !a.Type().Field(i).IsExported() {
				continue
			}
			if p := diffPath(a.Field(i), b.Field(i), path+"."+a.Type().Field(i).Name, depth+1); p != "" {
				return p
			}
		}
	case reflect.Slice:
		if a.Len() != b.Len() {
			return path + fmt.Sprintf(" (len %d vs %d)", a.Len(), b.Len())
		}
		for i := 0; i < a.Len(); i++ {
			if p := diffPath(a.Index(i), b.Index(i), fmt.Sprintf("%s[%d]", path, i), depth+1); p != "" {
				return p
			}
		}
	case reflect.Map:
		if a.Len() != b.Len() {
			return path + fmt.Sprintf(" (map len %d vs %d)", a.Len(), b.Len())
		}
		for _, k := range a.MapKeys() {
			bv := b.MapIndex(k)
			if !bv.IsValid() {
				return path + fmt.Sprintf("[%v] missing", k)
			}
			if p := diffPath(a.MapIndex(k), bv, fmt.Sprintf("%s[%v]", path, k), depth+1); p != "" {
				return p
			}
		}
	}
	return path + fmt.Sprintf(" (%#v vs %#v)", a.Interface(), b.Interface())
}
