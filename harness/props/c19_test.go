package props

import (
	"bytes"
	"context"
	"encoding/json"
	"fmt"
	"reflect"
	"regexp"
	"sort"
	"testing"

	appsv1 "k8s.io/api/apps/v1"
	corev1 "k8s.io/api/core/v1"
	"k8s.io/apimachinery/pkg/api/resource"
	metav1 "k8s.io/apimachinery/pkg/apis/meta/v1"
	"k8s.io/apimachinery/pkg/conversion"
	"k8s.io/apimachinery/pkg/types"
	"k8s.io/apimachinery/pkg/util/sets"
	kubefake "k8s.io/client-go/kubernetes/fake"
	"pgregory.net/rapid"

	asv1 "github.com/pingcap/advanced-statefulset/client/apis/apps/v1"
	"github.com/pingcap/advanced-statefulset/client/apis/apps/v1/helper"
	pcfake "github.com/pingcap/advanced-statefulset/client/client/clientset/versioned/fake"
)

// C19 — client-side helpers are lossless.

// c19Equal: semantic equality of API objects (quantities by value, times by instant, nil = empty, as
// apiequality.Semantic) where raw JSON (managedFields[].fieldsV1) is compared as JSON, not byte by byte: a JSON
// round trip may re-escape or re-space it ("&" becomes "\u0026") without changing what it says.
var c19Equal = conversion.EqualitiesOrDie(
	func(a, b resource.Quantity) bool { return a.Cmp(b) == 0 },
	func(a, b metav1.MicroTime) bool { return a.UTC() == b.UTC() },
	func(a, b metav1.Time) bool { return a.UTC() == b.UTC() },
	func(a, b metav1.FieldsV1) bool { return rawJSONEqual(a.Raw, b.Raw) },
)

func rawJSONEqual(a, b []byte) bool {
	if bytes.Equal(a, b) {
		return true
	}
	var x, y interface{}
	da, db := json.NewDecoder(bytes.NewReader(a)), json.NewDecoder(bytes.NewReader(b))
	da.UseNumber()
	db.UseNumber()
	if da.Decode(&x) != nil || db.Decode(&y) != nil {
		return false
	}
	return reflect.DeepEqual(x, y)
}

func semanticEqual(a, b reflect.Value) bool {
	if !a.CanInterface() || !b.CanInterface() {
		return true
	}
	return c19Equal.DeepEqual(a.Interface(), b.Interface())
}

// zeroUnmodelled clears the fields of the built-in type that the Advanced StatefulSet API does not model.
func zeroUnmodelled(s *appsv1.StatefulSet) {
	s.Spec.MinReadySeconds = 0
	s.Spec.PersistentVolumeClaimRetentionPolicy = nil
	s.Spec.Ordinals = nil
	if s.Spec.UpdateStrategy.RollingUpdate != nil {
		s.Spec.UpdateStrategy.RollingUpdate.MaxUnavailable = nil
	}
	s.Status.AvailableReplicas = 0
}

type C19Case struct {
	Builtin  *appsv1.StatefulSet `json:"builtin,omitempty"`
	Advanced *asv1.StatefulSet   `json:"advanced,omitempty"`
	// second item for the list conversion
	Advanced2 *asv1.StatefulSet `json:"advanced2,omitempty"`
}

func (c C19Case) Summary() interface{} {
	out := map[string]interface{}{}
	if c.Builtin != nil {
		n, e := populated(reflect.ValueOf(c.Builtin), 0)
		j, _ := json.Marshal(c.Builtin)
		if len(j) > 1500 {
			j = append(j[:1500], []byte("…")...)
		}
		out["builtin_populated_fields"] = n
		out["builtin_has_empty_collection"] = e
		out["builtin_json_prefix"] = string(j)
	}
	return out
}

func genC19(rt *rapid.T) C19Case {
	b := genBuiltinSet.Draw(rt, "builtin")
	a := genAdvancedSet.Draw(rt, "advanced")
	a2 := genAdvancedSet.Draw(rt, "advanced2")
	return C19Case{Builtin: &b, Advanced: &a, Advanced2: &a2}
}

func explain(a, b interface{}) string {
	return diffPath(reflect.ValueOf(a), reflect.ValueOf(b), "", 0)
}

// selfRoundTrips: does the object survive a JSON round trip in its OWN type? What its own wire format cannot carry
// (apimachinery marshals the quantity "1000E" as "1") no JSON client can keep, hijacked or not.
func selfRoundTrips(obj interface{}, fresh interface{}) bool {
	j, err := json.Marshal(obj)
	if err != nil || json.Unmarshal(j, fresh) != nil {
		return false
	}
	return c19Equal.DeepEqual(obj, fresh)
}

func runC19(rep Rep, c C19Case) {
	if c.Builtin != nil && !selfRoundTrips(c.Builtin, &appsv1.StatefulSet{}) {
		rep.Exclude("the built-in object does not survive a JSON round trip in its own type")
	}
	if c.Advanced != nil && !selfRoundTrips(c.Advanced, &asv1.StatefulSet{}) {
		rep.Exclude("the Advanced object does not survive a JSON round trip in its own type")
	}
	// (i) pure conversion, built-in -> Advanced -> built-in
	if c.Builtin != nil {
		x := c.Builtin.DeepCopy()
		as, err := helper.FromBuiltinStatefulSet(x)
		if err != nil {
			rep.Violate("convert/from-builtin-failed", "FromBuiltinStatefulSet failed: %v", err)
		}
		if !c19Equal.DeepEqual(x, c.Builtin) {
			rep.Violate("convert/input-mutated", "FromBuiltinStatefulSet modified its argument at %s", explain(c.Builtin, x))
		}
		if as.APIVersion != "apps.pingcap.com/v1" {
			rep.Violate("convert/apiversion-advanced", "converted object has apiVersion %q", as.APIVersion)
		}
		back, err := helper.ToBuiltinStatefulSet(as)
		if err != nil {
			rep.Violate("convert/to-builtin-failed", "ToBuiltinStatefulSet failed: %v", err)
		}
		if back.APIVersion != "apps/v1" {
			rep.Violate("convert/apiversion-builtin", "read-back object has apiVersion %q, want apps/v1", back.APIVersion)
		}
		if back.Kind != x.Kind {
			rep.Violate("convert/kind", "kind %q became %q", x.Kind, back.Kind)
		}
		want := x.DeepCopy()
		zeroUnmodelled(want)
		want.APIVersion = back.APIVersion
		if !c19Equal.DeepEqual(want, back) {
			rep.Violate("convert/builtin-roundtrip-lossy", "built-in -> Advanced -> built-in differs at %s", explain(want, back))
		}
		n, e := populated(reflect.ValueOf(x), 0)
		rep.FP(n, e, x.Name, x.Namespace, len(x.Spec.Template.Spec.Containers), len(x.Spec.VolumeClaimTemplates))
		if n >= 10 && e {
			rep.Nontrivial()
			rep.Label("object-with->=10-populated-fields-and-an-empty-collection")
		}
	}
	// Advanced -> built-in -> Advanced
	if c.Advanced != nil {
		y := c.Advanced.DeepCopy()
		b, err := helper.ToBuiltinStatefulSet(y)
		if err != nil {
			rep.Violate("convert/to-builtin-failed", "ToBuiltinStatefulSet failed: %v", err)
		}
		back, err := helper.FromBuiltinStatefulSet(b)
		if err != nil {
			rep.Violate("convert/from-builtin-failed", "FromBuiltinStatefulSet failed: %v", err)
		}
		want := y.DeepCopy()
		want.APIVersion = "apps.pingcap.com/v1"
		if !c19Equal.DeepEqual(want, back) {
			rep.Violate("convert/advanced-roundtrip-lossy", "Advanced -> built-in -> Advanced differs at %s", explain(want, back))
		}
		// list conversion keeps length and order, item by item
		if c.Advanced2 != nil {
			list := &asv1.StatefulSetList{Items: []asv1.StatefulSet{*c.Advanced.DeepCopy(), *c.Advanced2.DeepCopy(), *c.Advanced.DeepCopy()}}
			bl, err := helper.ToBuiltinStetefulsetList(list)
			if err != nil {
				rep.Violate("convert/list-failed", "ToBuiltinStetefulsetList failed: %v", err)
			}
			if len(bl.Items) != 3 {
				rep.Violate("convert/list-length", "list of 3 became %d items", len(bl.Items))
			}
			for i := range bl.Items {
				wantItem, _ := helper.ToBuiltinStatefulSet(&list.Items[i])
				if bl.Items[i].APIVersion != "apps/v1" {
					rep.Violate("convert/list-item-apiversion", "item %d has apiVersion %q", i, bl.Items[i].APIVersion)
				}
				if !c19Equal.DeepEqual(*wantItem, bl.Items[i]) {
					rep.Violate("convert/list-item-differs", "item %d of the converted list differs from its single conversion at %s", i, explain(*wantItem, bl.Items[i]))
				}
			}
		}
		// (iii) defaulting is idempotent, semantically and byte-wise on the pod template
		d1 := c.Advanced.DeepCopy()
		asv1.SetObjectDefaults_StatefulSet(d1)
		d2 := d1.DeepCopy()
		asv1.SetObjectDefaults_StatefulSet(d2)
		if !c19Equal.DeepEqual(d1, d2) {
			rep.Violate("default/not-idempotent", "defaulting twice differs from defaulting once at %s", explain(d1, d2))
		}
		j1, _ := json.Marshal(d1.Spec.Template)
		j2, _ := json.Marshal(d2.Spec.Template)
		if !bytes.Equal(j1, j2) {
			rep.Violate("default/template-bytes-change", "defaulting twice changes the pod template's JSON:\n%s\n%s", j1, j2)
		}
		// (ii) through the hijack client: a defaulted object written and read back is unchanged,
		// and re-submitting what was read back leaves the stored pod template's bytes unchanged
		hijackRoundTrip(rep, d1)
	}
}

func hijackRoundTrip(rep Rep, d *asv1.StatefulSet) {
	in, err := helper.ToBuiltinStatefulSet(d)
	if err != nil {
		rep.Violate("convert/to-builtin-failed", "%v", err)
	}
	if in.Name == "" {
		in.Name = "x"
	}
	in.Namespace = NS
	in.ResourceVersion = ""
	pc := pcfake.NewSimpleClientset()
	hc := helper.NewHijackClient(kubefake.NewSimpleClientset(), pc)
	ctx := context.TODO()
	cl := hc.AppsV1().StatefulSets(NS)
	created, err := cl.Create(ctx, in.DeepCopy(), metav1.CreateOptions{})
	if err != nil {
		rep.Violate("hijack/create-failed", "Create through the hijack client failed: %v", err)
	}
	want := in.DeepCopy()
	zeroUnmodelled(want)
	if !c19Equal.DeepEqual(want, created) {
		rep.Violate("hijack/create-result-differs", "object returned by Create differs from the (already defaulted) object written at %s", explain(want, created))
	}
	got, err := cl.Get(ctx, in.Name, metav1.GetOptions{})
	if err != nil {
		rep.Violate("hijack/get-failed", "Get failed: %v", err)
	}
	if got.APIVersion != "apps/v1" {
		rep.Violate("hijack/get-apiversion", "Get returned apiVersion %q", got.APIVersion)
	}
	if !c19Equal.DeepEqual(want, got) {
		rep.Violate("hijack/readback-differs", "object read back differs from the object written at %s", explain(want, got))
	}
	stored, _ := pc.AppsV1().StatefulSets(NS).Get(ctx, in.Name, metav1.GetOptions{})
	before, _ := json.Marshal(stored.Spec.Template)
	if _, err := cl.Update(ctx, got.DeepCopy(), metav1.UpdateOptions{}); err != nil {
		rep.Violate("hijack/update-failed", "Update of the read-back object failed: %v", err)
	}
	stored2, _ := pc.AppsV1().StatefulSets(NS).Get(ctx, in.Name, metav1.GetOptions{})
	after, _ := json.Marshal(stored2.Spec.Template)
	if !bytes.Equal(before, after) {
		rep.Violate("hijack/resubmit-changes-template", "re-submitting the read-back object changed the stored pod template (would start a rollout):\n%s\n%s", before, after)
	}
	st := got.DeepCopy()
	st.Status.Replicas = 7
	st.Status.CurrentRevision = "r"
	us, err := cl.UpdateStatus(ctx, st, metav1.UpdateOptions{})
	if err != nil {
		rep.Violate("hijack/updatestatus-failed", "UpdateStatus failed: %v", err)
	}
	if us.Status.Replicas != 7 || us.Status.CurrentRevision != "r" {
		rep.Violate("hijack/updatestatus-lost", "UpdateStatus result lost the status: %+v", us.Status)
	}
	// read-modify-write of the fields a controller touches rarely: each must arrive, alone
	for step, mod := range []func(*appsv1.StatefulSetStatus){
		func(x *appsv1.StatefulSetStatus) { cc := int32(3); x.CollisionCount = &cc },
		func(x *appsv1.StatefulSetStatus) {
			x.Conditions = append(x.Conditions, appsv1.StatefulSetCondition{Type: "VerifProbe", Status: corev1.ConditionTrue, Reason: "r"})
		},
		func(x *appsv1.StatefulSetStatus) { x.ObservedGeneration-- },
		func(x *appsv1.StatefulSetStatus) { x.CollisionCount = nil },
	} {
		cur, err := cl.Get(ctx, in.Name, metav1.GetOptions{})
		if err != nil {
			rep.Violate("hijack/get-failed", "Get failed: %v", err)
		}
		nx := cur.DeepCopy()
		mod(&nx.Status)
		ret, err := cl.UpdateStatus(ctx, nx, metav1.UpdateOptions{})
		if err != nil {
			rep.Violate("hijack/updatestatus-failed", "UpdateStatus (step %d) failed: %v", step, err)
		}
		back, err := cl.Get(ctx, in.Name, metav1.GetOptions{})
		if err != nil {
			rep.Violate("hijack/get-failed", "Get failed: %v", err)
		}
		if !c19Equal.DeepEqual(nx.Status, ret.Status) || !c19Equal.DeepEqual(nx.Status, back.Status) {
			rep.Violate("hijack/updatestatus-lost", "status written through UpdateStatus (step %d) %+v, returned %+v, read back %+v", step, nx.Status, ret.Status, back.Status)
		}
	}
	l, err := cl.List(ctx, metav1.ListOptions{})
	if err != nil || len(l.Items) != 1 {
		rep.Violate("hijack/list", "List returned %v items, err %v", l, err)
	}
	if l.Items[0].APIVersion != "apps/v1" {
		rep.Violate("hijack/list-item-apiversion", "listed item has apiVersion %q", l.Items[0].APIVersion)
	}
	p, err := cl.Patch(ctx, in.Name, types.MergePatchType, []byte(`{"metadata":{"annotations":{"patched":"yes"}}}`), metav1.PatchOptions{})
	if err != nil {
		rep.Violate("hijack/patch-failed", "Patch failed: %v", err)
	}
	if p.Annotations["patched"] != "yes" || p.APIVersion != "apps/v1" {
		rep.Violate("hijack/patch-result", "Patch result: annotations %v apiVersion %q", p.Annotations, p.APIVersion)
	}
	// a patch written for the built-in API means through the hijack client what it means there: the same patches are
	// applied to the same object held by a plain built-in (fake) API, and the outcomes are compared
	cur, err := cl.Get(ctx, in.Name, metav1.GetOptions{})
	if err != nil {
		rep.Violate("hijack/get-failed", "Get failed: %v", err)
	}
	refObj := cur.DeepCopy()
	refObj.ResourceVersion = ""
	ref := kubefake.NewSimpleClientset(refObj).AppsV1().StatefulSets(NS)
	type patch struct {
		pt   types.PatchType
		body string
	}
	patches := []patch{
		{types.StrategicMergePatchType, `{"metadata":{"finalizers":["verif.example/hold"]}}`},
		{types.MergePatchType, `{"spec":{"replicas":5}}`},
		{types.StrategicMergePatchType, `{"metadata":{"annotations":{"delete-slots":"[1,3]"}},"spec":{"replicas":2}}`},
	}
	if cs := cur.Spec.Template.Spec.Containers; len(cs) > 0 {
		nm, _ := json.Marshal(cs[0].Name)
		patches = append(patches, patch{types.StrategicMergePatchType, fmt.Sprintf(`{"spec":{"template":{"spec":{"containers":[{"name":%s,"image":"patched:1"}]}}}}`, nm)})
		rep.Label("patch/strategic-list-merge")
	}
	for _, pa := range patches {
		g, gerr := cl.Patch(ctx, in.Name, pa.pt, []byte(pa.body), metav1.PatchOptions{})
		w, werr := ref.Patch(ctx, in.Name, pa.pt, []byte(pa.body), metav1.PatchOptions{})
		if (gerr == nil) != (werr == nil) {
			rep.Violate("hijack/patch-outcome-differs", "%s patch %s: through the hijack client err=%v, against the built-in API err=%v", pa.pt, pa.body, gerr, werr)
		}
		if gerr != nil {
			continue
		}
		g, w = g.DeepCopy(), w.DeepCopy()
		zeroUnmodelled(w)
		g.ResourceVersion, w.ResourceVersion = "", ""
		if !c19Equal.DeepEqual(g.ObjectMeta, w.ObjectMeta) || !c19Equal.DeepEqual(g.Spec, w.Spec) || !c19Equal.DeepEqual(g.Status, w.Status) {
			rep.Violate("hijack/patch-differs-from-builtin", "%s patch %s: the result through the hijack client differs from the result against the built-in API at %s", pa.pt, pa.body, explain(w, g))
		}
		back, err := cl.Get(ctx, in.Name, metav1.GetOptions{})
		if err != nil {
			rep.Violate("hijack/get-failed", "Get failed: %v", err)
		}
		back.ResourceVersion = ""
		if !c19Equal.DeepEqual(back.ObjectMeta, w.ObjectMeta) || !c19Equal.DeepEqual(back.Spec, w.Spec) {
			rep.Violate("hijack/patch-readback-differs", "%s patch %s: the object read back differs from the result against the built-in API at %s", pa.pt, pa.body, explain(w, back))
		}
	}
}

func TestC19(t *testing.T)        { checkCases(t, "C19", genC19, runC19) }
func TestRegressC19(t *testing.T) { regress(t, "C19", runC19) }

// ---------------------------------------------------------------------------------------------
// annotation codecs (cheap: many cases)

type C19AnnCase struct {
	Ann      map[string]string `json:"ann"`
	NilAnn   bool              `json:"nil_ann"`
	Slots    []int32           `json:"slots"`
	More     []int32           `json:"more"`
	Existing string            `json:"existing"` // pre-existing delete-slots value ("" = none)
	HasExist bool              `json:"has_exist"`
}

func genC19Ann(rt *rapid.T) C19AnnCase {
	c := C19AnnCase{NilAnn: rapid.IntRange(0, 3).Draw(rt, "nilAnn") == 0}
	if !c.NilAnn {
		c.Ann = map[string]string{}
		n := rapid.IntRange(0, 3).Draw(rt, "nann")
		for i := 0; i < n; i++ {
			c.Ann[rapid.SampledFrom([]string{"a", "b/c", "note", "delete-slots-x", "paused"}).Draw(rt, "annKey")] = rapid.SampledFrom([]string{"", "1", "true", "[1]"}).Draw(rt, "annVal")
		}
		if rapid.Bool().Draw(rt, "hasExisting") {
			c.HasExist = true
			c.Existing = rapid.SampledFrom(append([]string{"[1,2]", "[5]", "[]", "[-1,3]"}, malformedAnns...)).Draw(rt, "existing")
		}
	}
	gen := rapid.OneOf(rapid.Int32Range(-3, 12), rapid.Int32(), rapid.SampledFrom([]int32{-2147483648, 2147483647, 0}))
	c.Slots = rapid.SliceOfN(gen, 0, 8).Draw(rt, "slots")
	c.More = rapid.SliceOfN(gen, 0, 5).Draw(rt, "more")
	return c
}

func sortedI32(s sets.Int32) []int32 {
	l := s.List()
	sort.Slice(l, func(i, j int) bool { return l[i] < l[j] })
	return l
}

func runC19Ann(rep Rep, c C19AnnCase) {
	mk := func() *asv1.StatefulSet {
		s := &asv1.StatefulSet{}
		if !c.NilAnn {
			s.Annotations = map[string]string{}
			for k, v := range c.Ann {
				s.Annotations[k] = v
			}
			if c.HasExist {
				s.Annotations[helper.DeleteSlotsAnn] = c.Existing
			}
		}
		return s
	}
	others := func(s *asv1.StatefulSet, skip ...string) map[string]string {
		out := map[string]string{}
		for k, v := range s.Annotations {
			keep := true
			for _, sk := range skip {
				if k == sk {
					keep = false
				}
			}
			if keep {
				out[k] = v
			}
		}
		return out
	}
	wantOthers := map[string]string{}
	for k, v := range c.Ann {
		if k != helper.DeleteSlotsAnn && k != helper.PausedReconcileAnn {
			wantOthers[k] = v
		}
	}
	// Set / Get
	s := mk()
	in := sets.NewInt32(c.Slots...)
	if err := helper.SetDeleteSlots(s, in); err != nil {
		rep.Violate("slots/set-failed", "SetDeleteSlots: %v", err)
	}
	got := helper.GetDeleteSlots(s)
	if !got.Equal(in) {
		rep.Violate("slots/get-after-set", "wrote %v read %v (annotation %q)", sortedI32(in), sortedI32(got), s.Annotations[helper.DeleteSlotsAnn])
	}
	// the set handed out belongs to the caller (the get / Insert / Set idiom changes it in place): whatever the
	// caller does with it, the annotation still reads as what was written - on this object and on any other
	// object carrying the same value
	got.Insert(c.More...)
	got.Insert(1234567, -7)
	if again := helper.GetDeleteSlots(s); !again.Equal(in) {
		rep.Violate("slots/read-aliases-earlier-result", "wrote %v, a caller changed the set it had read, a second read gives %v", sortedI32(in), sortedI32(again))
	}
	twin := mk()
	if err := helper.SetDeleteSlots(twin, in); err == nil {
		if again := helper.GetDeleteSlots(twin); !again.Equal(in) {
			rep.Violate("slots/read-aliases-earlier-result", "wrote %v on a second object after a caller changed the set read from the first: read %v", sortedI32(in), sortedI32(again))
		}
	}
	if _, has := s.Annotations[helper.DeleteSlotsAnn]; in.Len() == 0 && has {
		rep.Violate("slots/empty-set-keeps-annotation", "writing an empty set left the annotation %q", s.Annotations[helper.DeleteSlotsAnn])
	}
	if o := others(s, helper.DeleteSlotsAnn, helper.PausedReconcileAnn); fmt.Sprint(o) != fmt.Sprint(wantOthers) {
		rep.Violate("slots/other-annotations-disturbed", "other annotations %v became %v", wantOthers, o)
	}
	// Add = union
	more := sets.NewInt32(c.More...)
	if err := helper.AddDeleteSlots(s, more); err != nil {
		rep.Violate("slots/add-failed", "AddDeleteSlots: %v", err)
	}
	if got, want := helper.GetDeleteSlots(s), in.Union(more); !got.Equal(want) {
		rep.Violate("slots/add-not-union", "%v + %v gave %v", sortedI32(in), sortedI32(more), sortedI32(got))
	}
	if o := others(s, helper.DeleteSlotsAnn, helper.PausedReconcileAnn); fmt.Sprint(o) != fmt.Sprint(wantOthers) {
		rep.Violate("slots/other-annotations-disturbed", "other annotations %v became %v after Add", wantOthers, o)
	}
	// Add on top of a pre-existing (possibly malformed) value: never panics, result contains the added ones
	s2 := mk()
	if err := helper.AddDeleteSlots(s2, more); err != nil {
		rep.Violate("slots/add-failed", "AddDeleteSlots on %q: %v", c.Existing, err)
	}
	if got := helper.GetDeleteSlots(s2); !got.IsSuperset(more) {
		rep.Violate("slots/add-lost-members", "adding %v on top of %q gave %v", sortedI32(more), c.Existing, sortedI32(got))
	}
	// nil set clears
	s3 := mk()
	if err := helper.SetDeleteSlots(s3, nil); err != nil {
		rep.Violate("slots/set-failed", "SetDeleteSlots(nil): %v", err)
	}
	if _, has := s3.Annotations[helper.DeleteSlotsAnn]; has {
		rep.Violate("slots/nil-set-keeps-annotation", "SetDeleteSlots(nil) left %q", s3.Annotations[helper.DeleteSlotsAnn])
	}
	// pause flag
	s4 := mk()
	slotsBefore, hadSlots := s4.Annotations[helper.DeleteSlotsAnn]
	helper.SetPausedReconcile(s4, true)
	if !helper.GetPausedReconcile(s4) {
		rep.Violate("pause/get-after-set", "SetPausedReconcile(true) then GetPausedReconcile = false")
	}
	helper.SetPausedReconcile(s4, false)
	if helper.GetPausedReconcile(s4) {
		rep.Violate("pause/get-after-clear", "SetPausedReconcile(false) then GetPausedReconcile = true")
	}
	if _, has := s4.Annotations[helper.PausedReconcileAnn]; has {
		rep.Violate("pause/clear-keeps-annotation", "clearing the pause flag left the annotation")
	}
	if o := others(s4, helper.DeleteSlotsAnn, helper.PausedReconcileAnn); fmt.Sprint(o) != fmt.Sprint(wantOthers) {
		rep.Violate("pause/other-annotations-disturbed", "other annotations %v became %v", wantOthers, o)
	}
	if v, has := s4.Annotations[helper.DeleteSlotsAnn]; has != hadSlots || v != slotsBefore {
		rep.Violate("pause/slots-annotation-disturbed", "the pause helpers changed delete-slots from %q to %q", slotsBefore, v)
	}
	// the same over a write history through the hijack client: what an Update submits is what a Get returns, also
	// when the update's way of saying "no slots" / "not paused" is to drop the key
	{
		one := int32(1)
		hb := &appsv1.StatefulSet{ObjectMeta: metav1.ObjectMeta{Name: "x", Namespace: NS},
			Spec: appsv1.StatefulSetSpec{Replicas: &one, ServiceName: "svc", Selector: &metav1.LabelSelector{MatchLabels: map[string]string{"app": "x"}},
				Template: corev1.PodTemplateSpec{ObjectMeta: metav1.ObjectMeta{Labels: map[string]string{"app": "x"}},
					Spec: corev1.PodSpec{Containers: []corev1.Container{{Name: "c", Image: "i"}}}}}}
		if !c.NilAnn {
			hb.Annotations = map[string]string{}
			for k, v := range c.Ann {
				hb.Annotations[k] = v
			}
		}
		_ = helper.SetDeleteSlots(hb, sets.NewInt32(c.Slots...))
		helper.SetPausedReconcile(hb, true)
		hcl := helper.NewHijackClient(kubefake.NewSimpleClientset(), pcfake.NewSimpleClientset()).AppsV1().StatefulSets(NS)
		ctx := context.TODO()
		if _, err := hcl.Create(ctx, hb.DeepCopy(), metav1.CreateOptions{}); err != nil {
			rep.Violate("hijack/create-failed", "Create through the hijack client failed: %v", err)
		}
		cur, err := hcl.Get(ctx, "x", metav1.GetOptions{})
		if err != nil {
			rep.Violate("hijack/get-failed", "Get failed: %v", err)
		}
		upd := cur.DeepCopy()
		_ = helper.SetDeleteSlots(upd, sets.NewInt32(c.More...))
		helper.SetPausedReconcile(upd, false)
		if _, err := hcl.Update(ctx, upd.DeepCopy(), metav1.UpdateOptions{}); err != nil {
			rep.Violate("hijack/update-failed", "Update failed: %v", err)
		}
		back, err := hcl.Get(ctx, "x", metav1.GetOptions{})
		if err != nil {
			rep.Violate("hijack/get-failed", "Get failed: %v", err)
		}
		wa, ga := map[string]string{}, map[string]string{}
		for k, v := range upd.Annotations {
			wa[k] = v
		}
		for k, v := range back.Annotations {
			ga[k] = v
		}
		if fmt.Sprint(wa) != fmt.Sprint(ga) {
			rep.Violate("hijack/update-readback-annotations-differ", "an Update submitted annotations %v, a Get returns %v (first version had slots %v and the pause flag)", wa, ga, c.Slots)
		}
		if helper.GetPausedReconcile(back) || !helper.GetDeleteSlots(back).Equal(sets.NewInt32(c.More...)) {
			rep.Violate("hijack/update-readback-annotations-differ", "after an Update to slots %v / not paused the set reads slots %v paused=%v", c.More, sortedI32(helper.GetDeleteSlots(back)), helper.GetPausedReconcile(back))
		}
	}
	rep.FP(worldFPAny(c))
	if len(c.Slots) > 0 && (c.NilAnn || len(c.Ann) > 0) {
		rep.Nontrivial()
	}
	rep.Label("annotation-codec-case")
}

func TestC19Ann(t *testing.T)        { checkCases(t, "C19", genC19Ann, runC19Ann) }
func TestRegressC19Ann(t *testing.T) { regress(t, "C19Ann", runC19Ann) }

// FuzzC19: JSON bytes of a built-in StatefulSet under the native fuzzer; anything that decodes must round-trip.
// hugeExponent: a number with an exponent of three or more digits (resource.Quantity computes 10^n with math/big)
// (no mantissa digit is needed in front of the E: "E00701777777777" sends the parser the same way)
var hugeExponent = regexp.MustCompile(`[eE][+-]?[0-9]{3,}`)

func FuzzC19(f *testing.F) {
	f.Add([]byte(`{"apiVersion":"apps/v1","kind":"StatefulSet","metadata":{"name":"web","labels":{},"annotations":{"delete-slots":"[1]"}},"spec":{"replicas":3,"selector":{"matchLabels":{"app":"web"}},"serviceName":"svc","template":{"metadata":{"labels":{"app":"web"}},"spec":{"containers":[{"name":"c","image":"i","resources":{"limits":{"cpu":"1000m"}},"ports":[{"containerPort":80}]}],"volumes":[{"name":"v","emptyDir":{}}]}},"volumeClaimTemplates":[{"metadata":{"name":"data"},"spec":{"resources":{"requests":{"storage":"1Gi"}}}}],"updateStrategy":{"type":"RollingUpdate","rollingUpdate":{"partition":1}}},"status":{"replicas":1,"collisionCount":0}}`))
	f.Add([]byte(`{"metadata":{"creationTimestamp":null,"deletionTimestamp":"2020-01-01T00:00:00Z","managedFields":[{"manager":"m","time":"2020-01-01T00:00:00Z","fieldsV1":{"f:x":{}}}]},"spec":{"template":{"spec":{"containers":[]}},"selector":null},"status":{"conditions":[{"type":"x","status":"True","lastTransitionTime":null}]}}`))
	// found by this fuzzer (thorough tier) against an earlier, byte-wise comparison of raw JSON - a false alarm of the harness
	f.Add([]byte(`{"metAdAtA":{"mAnAgedFields":[{"fieldsV1":{"&":{}}}]}}`))
	// found by this fuzzer: a quantity that apimachinery itself marshals lossily ("1000E" -> "1") - excluded by the
	// self-round-trip premise, kept here so that the exclusion stays exercised
	f.Add([]byte(`{"spec":{"template":{"spec":{"containers":[{"resources":{"limits":{"":"1000E"}}}]}}}}`))
	// found by this fuzzer: a quantity with an astronomic exponent sends apimachinery's own parser/canonicaliser into
	// minutes of math/big arithmetic (a worker "hung"): nothing of this repository is involved, such inputs are skipped
	f.Add([]byte(`{"spec":{"template":{"spec":{"containers":[{"resources":{"limits":{"":"1000E7777777777"}}}]}}}}`))
	f.Add([]byte(`{"spec":{"template":{"spec":{"containers":[{"resources":{"limits":{"":"E00701777777777"}}}]}}}}`))
	r := rec("C19")
	f.Fuzz(func(t *testing.T, data []byte) {
		if hugeExponent.Match(data) {
			return
		}
		var x appsv1.StatefulSet
		if err := json.Unmarshal(data, &x); err != nil {
			return
		}
		p := &P{T: t, base: base{id: "C19", r: r}}
		p.self = p
		defer p.finish()
		runC19(p, C19Case{Builtin: &x})
	})
}
