package props

import (
	"fmt"
	"sort"
	"strings"
	"testing"

	appsv1 "k8s.io/api/apps/v1"
	corev1 "k8s.io/api/core/v1"
	"k8s.io/apimachinery/pkg/api/meta"
	"pgregory.net/rapid"

	asv1 "github.com/pingcap/advanced-statefulset/client/apis/apps/v1"
	"github.com/pingcap/advanced-statefulset/client/apis/apps/v1/helper"

	"verifharness/model"
	"verifharness/sim"
)

// C11 — deleted and paused sets are left alone, and a pause is lossless.

type C11Case struct {
	W       World `json:"world"`
	Mode    int   `json:"mode"`     // 0 deletion timestamp, 1 pause, 2 pause and - from op LowerAt on - a deletion timestamp as well
	RaiseAt int   `json:"raise_at"` // the flag is raised before op RaiseAt
	LowerAt int   `json:"lower_at"` // pause only: lowered before op LowerAt (>= RaiseAt)
	// MidPause (mode 1 only, replaces the twin comparison): the pause is not raised between two ops but lands - API and
	// set cache - before the k-th API call of a reconcile whose status write then meets a conflict
	MidPause int `json:"mid_pause,omitempty"`
	// Ahead: the deletion timestamp lies ahead of the controller's wall clock (clock skew / grace period)
	Ahead bool `json:"ahead,omitempty"`
}

func (c C11Case) Summary() interface{} {
	return map[string]interface{}{"world": summarizeWorld(c.W), "mode": []string{"deletion", "pause", "pause+deletion"}[c.Mode], "raise_at": c.RaiseAt, "lower_at": c.LowerAt}
}

func genC11(rt *rapid.T) C11Case {
	o := histOpts
	o.maxOps = 30
	o.constructed = 7
	o.orphanRevs = true
	// no mid-reconcile interference: an environment step scheduled "before the k-th API call" would not
	// happen at all in the paused run (a paused reconcile makes no call), so the twin runs would not see
	// the same environment history
	o.interference = false
	c := C11Case{W: genWorld(rt, o), Mode: rapid.SampledFrom([]int{0, 0, 1, 1, 1, 2}).Draw(rt, "mode")}
	if c.Mode != 1 && rapid.IntRange(0, 2).Draw(rt, "relabel") == 0 {
		// somebody relabels a pod by hand (it stops matching the selector but keeps its owner reference): work
		// that a live set would do by releasing it. Not in the pause mode, whose closing schedule needs the names free.
		at := rapid.IntRange(0, len(c.W.Ops)).Draw(rt, "relabelAt")
		op := Op{K: OpRelabelPod, A: rapid.IntRange(0, 20).Draw(rt, "relabelPod")}
		c.W.Ops = append(c.W.Ops[:at], append([]Op{op}, c.W.Ops[at:]...)...)
	}
	// the confirming read before an adoption is a call like any other: now and then it times out or fails (no answer
	// is not "not being deleted")
	for i := range c.W.Ops {
		if op := &c.W.Ops[i]; op.K == OpReconcile && op.FaultAt == 0 && rapid.IntRange(0, 4).Draw(rt, "getFault") == 0 {
			op.FaultAt = -5
			op.Fault = rapid.SampledFrom([]int{FServerError, FTimeoutLost, FTimeoutLost}).Draw(rt, "getFaultKind")
		}
	}
	c.Ahead = rapid.IntRange(0, 2).Draw(rt, "tsAhead") == 0
	if c.Mode == 1 && rapid.IntRange(0, 4).Draw(rt, "midPause") == 0 {
		c.MidPause = rapid.IntRange(1, 12).Draw(rt, "midPauseAt")
	}
	n := len(c.W.Ops)
	c.RaiseAt = rapid.IntRange(0, n).Draw(rt, "raiseAt")
	c.LowerAt = rapid.IntRange(c.RaiseAt, n).Draw(rt, "lowerAt")
	return c
}

func monC11(rep Rep, v *View) (flagged bool) {
	uid := string(v.Set.UID)
	// stale cache: the set already carried a deletion timestamp in the API when this reconcile started.
	// The uncached re-check before adoption must then have seen it: no adoption of pods or revisions.
	if sb := v.Rec.SetBefore; sb != nil && sb.UID == v.Set.UID && sb.DeletionTimestamp != nil && !v.Deleting {
		for _, a := range v.Rec.Actions {
			if a.Err == nil && a.IsWrite() && (a.Resource == "pods" || a.Resource == "controllerrevisions") && ownerAdopted(a, uid) {
				rep.Violate("deleting/adopted-despite-deletion-in-api", "the set carried a deletion timestamp in the API (the cache was stale) but %s adopted an object%s", a, ctx(v))
			}
		}
		flagged = true
	}
	if v.Paused {
		for _, a := range v.Rec.Actions {
			if a.IsWrite() {
				rep.Violate("pause/write-while-paused", "paused set but the reconcile issued %s%s", a, ctx(v))
			}
		}
		return true
	}
	// the reconcile started before the pause was visible, but looked its set up in the cache again later and got the
	// paused version: from then on only the status write it was in the middle of (and the history trim behind it) may still go out
	for _, sr := range v.Rec.SetReads {
		if !sr.Found || !sr.Paused {
			continue
		}
		for i, a := range v.Rec.Actions {
			// what an in-flight reconcile still has ahead of it after its status write was retried: that write itself
			// and the history trim that follows it
			tail := (a.Resource == "statefulsets" && a.Subresource == "status") || (a.Resource == "controllerrevisions" && a.Verb == "delete")
			if i >= sr.AfterCalls && a.IsWrite() && !tail {
				rep.Violate("pause/write-after-reading-paused-set", "after %d calls the reconcile read the paused set (rv %s) from its cache and then still issued %s%s", sr.AfterCalls, sr.ResourceVersion, a, ctx(v))
			}
		}
		flagged = true
		break
	}
	if !v.Deleting {
		// the cached set carried no deletion timestamp, but the reconcile looked the live object up (the re-check that
		// precedes an adoption) and was handed one that does: from then on it knows, and pods and claims are off limits
		knows := -1
		for i, a := range v.Rec.Actions {
			if a.Verb == "get" && a.Resource == "statefulsets" && a.Subresource == "" && a.Err == nil && knows < 0 {
				if live, ok := a.Result.(*asv1.StatefulSet); ok && live != nil && live.UID == v.Set.UID && live.DeletionTimestamp != nil {
					knows = i
					flagged = true
				}
			}
			if knows >= 0 && i > knows && a.IsWrite() && (a.Resource == "pods" || a.Resource == "persistentvolumeclaims") {
				rep.Violate("deleting/write-after-reading-deleting-set", "the reconcile read the live set (call %d) and got a deletion timestamp, and then still issued %s%s", knows, a, ctx(v))
			}
		}
		return flagged
	}
	for _, a := range v.Rec.Actions {
		if !a.IsWrite() {
			continue
		}
		switch a.Resource {
		case "pods", "persistentvolumeclaims":
			sig := "deleting/" + a.Resource + "-" + a.Verb
			if a.Verb == "patch" {
				if isReleasePatch(a) {
					sig = "deleting/pod-released"
				} else if isAdoptPatch(a, uid) {
					sig = "deleting/pod-adopted"
				}
			}
			rep.Violate(sig, "set carries a deletion timestamp but the reconcile issued %s%s", a, ctx(v))
		case "controllerrevisions":
			before, _ := a.Before.(*appsv1.ControllerRevision)
			if after, ok := a.Result.(*appsv1.ControllerRevision); ok && before != nil && a.Err == nil && a.Verb != "patch" {
				// adoption / release by any verb: the controlling owner reference changed
				if !refEqual(controllerOf(before.OwnerReferences), controllerOf(after.OwnerReferences)) {
					rep.Violate("deleting/revision-owner-changed", "set carries a deletion timestamp but %s changed the controlling owner of revision %s from %v to %v%s",
						a, a.Name, controllerOf(before.OwnerReferences), controllerOf(after.OwnerReferences), ctx(v))
				}
			}
			if a.Verb == "patch" {
				rep.Violate("deleting/revision-owner-patched", "set carries a deletion timestamp but a ControllerRevision's owner references were patched: %s%s", a, ctx(v))
			}
			_ = before
		}
	}
	return true
}

// ownerAdopted: the write made the set (uid) the controlling owner of an object it did not control before.
func ownerAdopted(a *sim.Action, uid string) bool {
	if a.Verb == "patch" && isAdoptPatch(a, uid) {
		return true
	}
	if a.Verb == "create" || a.Before == nil || a.Result == nil {
		return false
	}
	bm, err1 := meta.Accessor(a.Before)
	am, err2 := meta.Accessor(a.Result)
	if err1 != nil || err2 != nil {
		return false
	}
	b, c := controllerOf(bm.GetOwnerReferences()), controllerOf(am.GetOwnerReferences())
	return (b == nil || string(b.UID) != uid) && c != nil && string(c.UID) == uid
}

type projection struct {
	Pods     []string
	Status   string
	UpdImage string
}

func project(s *Sys) projection {
	set := s.Set()
	var p projection
	if set == nil {
		return p
	}
	partition := 0
	if ru := set.Spec.UpdateStrategy.RollingUpdate; ru != nil && ru.Partition != nil {
		partition = int(*ru.Partition)
	}
	rolling := set.Spec.UpdateStrategy.Type == asv1.RollingUpdateStatefulSetStrategyType
	for _, pod := range s.C.PodsIn(NS) {
		ord, ok := model.Canonical(s.Name, pod.Name)
		if !ok {
			continue
		}
		img := "-"
		if rolling && ord >= partition {
			img = pod.Spec.Containers[0].Image
		}
		p.Pods = append(p.Pods, fmt.Sprintf("%s ready=%v img=%s", pod.Name, pod.Status.Phase == corev1.PodRunning && sim.IsReady(pod), img))
	}
	sort.Strings(p.Pods)
	p.Status = fmt.Sprintf("replicas=%d ready=%d", set.Status.Replicas, set.Status.ReadyReplicas)
	if r := s.C.Rev(NS, set.Status.UpdateRevision); r != nil {
		p.UpdImage = revImage(r)
	}
	return p
}

func (s *Sys) cloneSys() *Sys {
	n := &Sys{C: s.C.Clone(), W: s.W, Key: s.Key, Name: s.Name, RevOf: s.RevOf}
	return n
}

func runC11(rep Rep, c C11Case) {
	w := c.W
	s := BuildWorld(rep, &w)
	defer s.Close()
	flagged := 0
	s.OnRecord = func(r *sim.Record, op *Op) {
		if r.Panic != nil {
			rep.Violate("panic", "reconcile panicked: %v\n%s", r.Panic, r.Stack)
		}
		if v := NewView(r); v != nil {
			if monC11(rep, v) {
				flagged++
			}
		}
	}
	ops := w.Ops
	if c.RaiseAt > len(ops) {
		c.RaiseAt = len(ops)
	}
	if c.LowerAt > len(ops) {
		c.LowerAt = len(ops)
	}
	if c.LowerAt < c.RaiseAt {
		c.LowerAt = c.RaiseAt
	}
	for i := 0; i < c.RaiseAt; i++ {
		s.Run(&ops[i])
	}
	// non-triviality: would the unflagged controller have written something right now?
	wouldWrite := false
	{
		probe := s.cloneSys()
		r := probe.Reconcile(&Op{K: OpReconcile})
		wouldWrite = len(r.Writes()) > 0
		probe.Close()
	}
	if c.Mode == 1 && c.MidPause > 0 {
		// no twin here: one reconcile during which the pause lands and whose status write meets a conflict
		s.Reconcile(&Op{K: OpReconcile, InterAt: c.MidPause, InterKind: OpPauseSeen, FaultAt: -1, Fault: FConflict})
		s.Reconcile(&Op{K: OpReconcile})
		rep.FP(worldFPAny(c))
		rep.Label("pause:lands-mid-reconcile")
		if wouldWrite {
			rep.Nontrivial()
		}
		return
	}
	var twin *Sys
	if c.Mode == 1 {
		twin = s.cloneSys()
		defer twin.Close()
	}
	if c.Mode >= 1 {
		s.C.UpdateSet(NS, s.Name, func(x *asv1.StatefulSet) { helper.SetPausedReconcile(x, true) })
		s.logf("user: pause raised")
	} else {
		s.C.MarkSetDeletingAt(NS, s.Name, c.Ahead)
		s.logf("user: set deletion timestamp raised")
	}
	end := len(ops)
	if c.Mode == 1 {
		end = c.LowerAt
	}
	for i := c.RaiseAt; i < end; i++ {
		if c.Mode == 2 && i == c.LowerAt {
			s.C.MarkSetDeletingAt(NS, s.Name, c.Ahead)
			s.logf("user: set deletion timestamp raised (still paused)")
		}
		s.Run(&ops[i])
	}
	if c.Mode == 2 && c.LowerAt >= end {
		s.C.MarkSetDeletingAt(NS, s.Name, c.Ahead)
		s.logf("user: set deletion timestamp raised (still paused)")
	}
	// one reconcile with fresh caches while the flag is certainly visible
	s.Reconcile(&Op{K: OpReconcile})
	rep.FP(worldFPAny(c))
	if wouldWrite && flagged > 0 {
		rep.Nontrivial()
		rep.Label([]string{"deletion", "pause", "pause+deletion"}[c.Mode] + ":flag-raised-while-work-pending")
	}
	if c.Mode != 1 {
		return
	}
	// resume
	s.C.UpdateSet(NS, s.Name, func(x *asv1.StatefulSet) { helper.SetPausedReconcile(x, false) })
	s.logf("user: pause lowered")
	// the un-pause reaches the controller as a set update event: it must wake the set up
	// (unless an injected not-found interference removed the set itself earlier in the history)
	if s.Set() != nil {
		q := s.C.Ctrl().VerifQueue()
		for q.Len() > 0 {
			k, _ := q.Get()
			q.Done(k)
			q.Forget(k)
		}
		s.C.RefreshSet(NS, s.Name, true)
		woke := false
		for q.Len() > 0 {
			k, _ := q.Get()
			if k.(string) == s.Key {
				woke = true
			}
			q.Done(k)
			q.Forget(k)
		}
		if !woke {
			rep.Violate("pause/unpause-event-does-not-enqueue", "removing the pause annotation (an annotation-only update of the set) did not enqueue the set: it would not resume\n%s", s.Transcript())
		}
	}
	for i := c.LowerAt; i < len(ops); i++ {
		s.Run(&ops[i])
	}
	for i := c.RaiseAt; i < len(ops); i++ {
		twin.Run(&ops[i])
	}
	s.OnRecord = nil
	okA := closeAndCheck(rep, s)
	okB := closeAndCheck(rep, twin)
	if okA && okB {
		pa, pb := project(s), project(twin)
		if fmt.Sprint(pa) != fmt.Sprint(pb) {
			rep.Violate("pause/resume-not-equivalent", "after a pause the set converged to %v, the never-paused twin to %v\n--- paused run ---\n%s\n--- twin ---\n%s",
				pa, pb, s.Transcript(), twin.Transcript())
		}
		rep.Label("pause:twin-compared")
	}
}

func TestC11(t *testing.T)        { checkCases(t, "C11", genC11, runC11) }
func TestRegressC11(t *testing.T) { regress(t, "C11", runC11) }

var _ = strings.Join
