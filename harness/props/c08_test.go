package props

import (
	"bytes"
	"encoding/json"
	"fmt"
	"reflect"
	"testing"

	appsv1 "k8s.io/api/apps/v1"
	corev1 "k8s.io/api/core/v1"
	apierrors "k8s.io/apimachinery/pkg/api/errors"
	metav1 "k8s.io/apimachinery/pkg/apis/meta/v1"
	"pgregory.net/rapid"

	asv1 "github.com/pingcap/advanced-statefulset/client/apis/apps/v1"
	"github.com/pingcap/advanced-statefulset/client/apis/apps/v1/helper"
	"github.com/pingcap/advanced-statefulset/pkg/controller/statefulset"

	"verifharness/sim"
)

// C08 — the update revision mirrors the template; scaling edits never cause a restart.

type C08Op struct {
	// K: 0 reconcile, 1 template := Templates[A], 2 replicas, 3 add slot, 4 remove slots, 5 pause on, 6 pause off,
	// 7 label/annotation edit, 8 history limit, 9 plant a revision colliding by name with the next one
	// (B=0 different data, B=1 identical data), 10 kubelet readies everything, 11 plant an own revision with
	// different data whose revision number ties with / exceeds / is below the current ones (A picks which),
	// 12 reconcile during which the first ControllerRevision write meets trouble: A%3 = 0 a concurrent writer
	// touched the revision (a real conflict on update, retried inside the controller), 1 the write is applied
	// but reported as timed out, 2 server error, 13 the set gets a deletion timestamp (held by a finalizer): it still
	// keeps its revision records
	K int `json:"k"`
	A int `json:"a,omitempty"`
	B int `json:"b,omitempty"`
}

type C08Case struct {
	Templates []corev1.PodTemplateSpec `json:"templates"`
	Ops       []C08Op                  `json:"ops"`
	Limit     int32                    `json:"limit"`
	// Sel: the set's selector. 0 matchLabels {app}, 1 matchLabels plus "tmpl Exists", 2 expressions only, 3 matchLabels
	// plus "tmpl In (0..3)" (every template carries both labels, so every variant is a valid set)
	Sel int `json:"sel,omitempty"`
}

func (c C08Case) Summary() interface{} {
	var ops []string
	names := []string{"reconcile", "template", "replicas", "slotAdd", "slotsClear", "pauseOn", "pauseOff", "metaEdit", "limit", "plantCollision", "kubelet", "plantNumbered", "reconcileRevisionWriteFault", "markDeleting"}
	for _, o := range c.Ops {
		ops = append(ops, fmt.Sprintf("%s(%d,%d)", names[o.K], o.A, o.B))
	}
	var sizes []int
	for i := range c.Templates {
		n, _ := populated(reflect.ValueOf(c.Templates[i]), 0)
		sizes = append(sizes, n)
	}
	t0, _ := json.Marshal(c.Templates[0])
	if len(t0) > 1200 {
		t0 = append(t0[:1200], []byte("…")...)
	}
	return map[string]interface{}{"ops": ops, "template_populated_fields": sizes, "template0_json_prefix": string(t0), "limit": c.Limit, "sel": c.Sel}
}

// pod templates over the whole PodTemplateSpec schema; integers stay within int32 (what pod
// validation accepts for all but two fields — see DESIGN §5)
func templateCfg() rapid.MakeConfig {
	cfg := makeCfg()
	cfg.Kinds[reflect.Int64] = anyGen(rapid.Map(rapid.Int64Range(-2147483648, 2147483647), func(v int64) int64 { return v }))
	cfg.Kinds[reflect.Int] = anyGen(rapid.Map(rapid.IntRange(-2147483648, 2147483647), func(v int) int { return v }))
	return cfg
}

var genTemplate = rapid.MakeCustom[corev1.PodTemplateSpec](templateCfg())

func genC08(rt *rapid.T) C08Case {
	c := C08Case{Limit: rapid.SampledFrom([]int32{10, 10, 10, 2, 1, 0}).Draw(rt, "limit")}
	nt := rapid.IntRange(1, 4).Draw(rt, "ntemplates")
	for i := 0; i < nt; i++ {
		var t corev1.PodTemplateSpec
		if rapid.IntRange(0, 2).Draw(rt, "richTemplate") == 0 {
			t = genTemplate.Draw(rt, "template")
		} else {
			t = corev1.PodTemplateSpec{Spec: corev1.PodSpec{Containers: []corev1.Container{{Name: "c", Image: fmt.Sprintf("img:%d", i)}}}}
		}
		// the set's own bookkeeping needs selector-matching labels and a distinguishable template
		if t.Labels == nil {
			t.Labels = map[string]string{}
		}
		t.Labels["app"] = "web"
		t.Labels["tmpl"] = fmt.Sprint(i)
		c.Templates = append(c.Templates, t)
	}
	if nt >= 2 && rapid.IntRange(0, 2).Draw(rt, "rollbackPrefix") == 0 {
		// a rollback somewhere in the history: template a, reconcile, template b, reconcile, back to a, reconcile
		a := rapid.IntRange(0, nt-1).Draw(rt, "rbA")
		b := (a + 1 + rapid.IntRange(0, nt-2).Draw(rt, "rbB")) % nt
		last := C08Op{K: 0}
		if rapid.IntRange(0, 2).Draw(rt, "rbFault") == 0 {
			last = C08Op{K: 12, A: rapid.IntRange(0, 2).Draw(rt, "rbFaultKind")}
		}
		c.Ops = append(c.Ops, C08Op{K: 1, A: a}, C08Op{K: 0}, C08Op{K: 1, A: b}, C08Op{K: 0}, C08Op{K: 1, A: a}, last)
	}
	n := rapid.IntRange(1, 20).Draw(rt, "nops")
	for i := 0; i < n; i++ {
		o := C08Op{K: rapid.SampledFrom([]int{0, 0, 0, 0, 0, 1, 1, 1, 2, 3, 4, 5, 6, 7, 8, 9, 9, 10, 11, 11, 12, 12, 13}).Draw(rt, "op")}
		o.A = rapid.IntRange(0, 8).Draw(rt, "a")
		o.B = rapid.IntRange(0, 1).Draw(rt, "b")
		c.Ops = append(c.Ops, o)
	}
	c.Sel = rapid.SampledFrom([]int{0, 0, 1, 2, 3}).Draw(rt, "sel")
	return c
}

// revTemplate decodes the template a revision records, independently of the controller's codec.
func revTemplate(r *appsv1.ControllerRevision) (*corev1.PodTemplateSpec, error) {
	var d struct {
		Spec struct {
			Template json.RawMessage `json:"template"`
		} `json:"spec"`
	}
	if err := json.Unmarshal(r.Data.Raw, &d); err != nil {
		return nil, err
	}
	var t corev1.PodTemplateSpec
	if err := json.Unmarshal(d.Spec.Template, &t); err != nil {
		return nil, err
	}
	return &t, nil
}

func runC08(rep Rep, c C08Case) {
	cl := sim.New()
	defer cl.Close()
	set := baseSet(NS, "web", 1)
	set.Spec.Template = *c.Templates[0].DeepCopy()
	lim := c.Limit
	set.Spec.RevisionHistoryLimit = &lim
	switch c.Sel {
	case 1:
		set.Spec.Selector.MatchExpressions = []metav1.LabelSelectorRequirement{{Key: "tmpl", Operator: metav1.LabelSelectorOpExists}}
	case 2:
		set.Spec.Selector = &metav1.LabelSelector{MatchExpressions: []metav1.LabelSelectorRequirement{{Key: "app", Operator: metav1.LabelSelectorOpIn, Values: []string{"web"}}}}
	case 3:
		set.Spec.Selector.MatchExpressions = []metav1.LabelSelectorRequirement{{Key: "tmpl", Operator: metav1.LabelSelectorOpIn, Values: []string{"0", "1", "2", "3"}}}
	}
	if c.Sel != 0 {
		rep.Label("selector-with-expressions")
	}
	cl.Put(set)
	key := NS + "/web"
	cur := 0
	type lastOK struct {
		tmpl    int
		updRev  string
		nrevs   int
		hasBase bool
	}
	var last lastOK
	sawRollback, sawNonTemplateEdit, sawCollision := false, false, false
	nonTemplateEditSince := false
	templateEditSince := false // any template switch since the last successful reconcile (even one that was switched back)
	type planted struct {
		name string
		raw  []byte
		same bool
		uid  string
	}
	var plants []planted
	edit := func(f func(*asv1.StatefulSet)) { cl.UpdateSet(NS, "web", f) }
	for i, o := range c.Ops {
		where := fmt.Sprintf("op %d", i)
		switch o.K {
		case 1:
			if o.A%len(c.Templates) != cur {
				templateEditSince = true
			}
			cur = o.A % len(c.Templates)
			t := c.Templates[cur].DeepCopy()
			edit(func(x *asv1.StatefulSet) { x.Spec.Template = *t })
		case 2:
			r := int32(o.A % 4)
			edit(func(x *asv1.StatefulSet) { x.Spec.Replicas = &r })
			nonTemplateEditSince = true
		case 3:
			edit(func(x *asv1.StatefulSet) {
				sl := helper.GetDeleteSlots(x)
				sl.Insert(int32(o.A % 5))
				helper.SetDeleteSlots(x, sl)
			})
			nonTemplateEditSince = true
		case 4:
			edit(func(x *asv1.StatefulSet) { helper.SetDeleteSlots(x, nil) })
			nonTemplateEditSince = true
		case 5:
			edit(func(x *asv1.StatefulSet) { helper.SetPausedReconcile(x, true) })
		case 6:
			edit(func(x *asv1.StatefulSet) { helper.SetPausedReconcile(x, false) })
			nonTemplateEditSince = true
		case 7:
			edit(func(x *asv1.StatefulSet) {
				if x.Labels == nil {
					x.Labels = map[string]string{}
				}
				x.Labels["team"] = fmt.Sprint(o.A)
				if x.Annotations == nil {
					x.Annotations = map[string]string{}
				}
				x.Annotations["note"] = fmt.Sprint(o.A)
			})
			nonTemplateEditSince = true
		case 8:
			l := []int32{10, 10, 3, 2}[o.A%4]
			edit(func(x *asv1.StatefulSet) { x.Spec.RevisionHistoryLimit = &l })
			nonTemplateEditSince = true
		case 13:
			if cl.MarkSetDeleting(NS, "web") {
				rep.Label("set-deleting")
			}
		case 10:
			for _, p := range cl.PodsIn(NS) {
				if p.DeletionTimestamp != nil {
					cl.Kubelet(NS, p.Name, sim.KFinalize)
				} else {
					cl.Kubelet(NS, p.Name, sim.KReady)
				}
			}
		case 11:
			// an own revision recording some other template, numbered to tie with (or sit around) the highest
			// revision number: "all pre-existing revisions" includes equal revision numbers
			var max int64
			var tmplOf *appsv1.ControllerRevision
			for _, rv := range cl.Revs() {
				if rv.Revision >= max {
					max = rv.Revision
					tmplOf = rv
				}
			}
			cs := cl.Set(NS, "web")
			if tmplOf == nil || cs == nil {
				continue
			}
			p := tmplOf.DeepCopy()
			p.UID, p.ResourceVersion = "", ""
			p.CreationTimestamp = metav1.Time{}
			p.Name = fmt.Sprintf("web-%s%d", []string{"zzz", "000"}[o.B], i)
			p.Labels = map[string]string{"app": "web", "tmpl": "0"}
			p.OwnerReferences = []metav1.OwnerReference{ownerRefTo(cs)}
			p.Data.Raw = bytes.Replace(append([]byte(nil), p.Data.Raw...), []byte(`"metadata":{`), []byte(fmt.Sprintf(`"metadata":{"annotations":{"numbered":"%d"},`, i)), 1)
			p.Revision = []int64{max, max, max + 1, max - 1, 0}[o.A%5]
			cl.Put(p)
			sawCollision = true
			rep.Label("planted-revision-with-tied-or-odd-number")
		case 9:
			// learn from a dry run on a clone which revision name the next reconcile would create
			probe := cl.Clone()
			probe.RefreshAll()
			pr := probe.Reconcile(key)
			probe.Close()
			for _, a := range pr.Actions {
				if a.Resource == "controllerrevisions" && a.Verb == "create" && a.Err == nil {
					obj := a.Obj.(*appsv1.ControllerRevision)
					p := obj.DeepCopy()
					p.UID, p.ResourceVersion = "", ""
					p.Namespace = NS
					pl := planted{name: p.Name, same: o.B == 1}
					if pl.same {
						// the same data in the spelling every encoding/json writer produces (the built-in controller, an
						// earlier release of this one): for data produced by json.Marshal this changes nothing
						if re, err := json.Marshal(json.RawMessage(p.Data.Raw)); err == nil {
							p.Data.Raw = re
						}
					}
					if !pl.same {
						p.Data.Raw = bytes.Replace(append([]byte(nil), p.Data.Raw...), []byte(`"metadata":{`), []byte(`"metadata":{"annotations":{"planted":"yes"},`), 1)
						if bytes.Equal(p.Data.Raw, obj.Data.Raw) {
							continue
						}
						p.Labels = map[string]string{"unrelated": "x"} // somebody else's object that happens to have this name
						p.OwnerReferences = nil
					}
					stored := cl.Put(p).(*appsv1.ControllerRevision)
					pl.raw = append([]byte(nil), stored.Data.Raw...)
					pl.uid = string(stored.UID)
					plants = append(plants, pl)
					sawCollision = true
					rep.Label("planted-name-collision")
				}
			}
		case 0, 12:
			cl.RefreshAll()
			cached := cl.CacheSet(NS, "web")
			paused := helper.GetPausedReconcile(cached)
			revsBefore := cl.Revs()
			hit := false
			if o.K == 12 {
				cl.Intercept = func(a *sim.Action) *sim.Fault {
					if hit || a.Resource != "controllerrevisions" || !a.IsWrite() {
						return nil
					}
					hit = true
					switch o.A % 3 {
					case 0:
						if rv := cl.Rev(a.Namespace, a.Name); rv != nil && a.Verb == "update" {
							if rv.Annotations == nil {
								rv.Annotations = map[string]string{}
							}
							rv.Annotations["touched"] = rv.ResourceVersion
							cl.Put(rv)
							rep.Label("revision-update-met-a-conflict")
						}
						return nil
					case 1:
						return &sim.Fault{Err: apierrors.NewTimeoutError("injected timeout (applied)", 1), Apply: true}
					}
					return &sim.Fault{Err: apierrors.NewInternalError(fmt.Errorf("injected server error"))}
				}
			}
			r := cl.Reconcile(key)
			cl.Intercept = nil
			if r.Panic != nil {
				rep.Violate("panic", "%s: reconcile panicked: %v\n%s", where, r.Panic, r.Stack)
			}
			if r.Err != nil && hit {
				rep.Label("revision-write-failed")
				continue // not a successful reconcile: the clauses below apply to the next one that succeeds
			}
			if r.Err != nil {
				rep.Violate("reconcile/failed", "%s: reconcile failed without any injected fault: %v\n%s", where, r.Err, r.Transcript())
			}
			if paused {
				continue
			}
			after := cl.Set(NS, "web")
			upd := after.Status.UpdateRevision
			R := cl.Rev(NS, upd)
			if R == nil {
				rep.Violate("update-revision/not-stored", "%s: status.updateRevision %q names no stored ControllerRevision\n%s", where, upd, r.Transcript())
			}
			want := &cached.Spec.Template
			got, err := revTemplate(R)
			if err != nil {
				rep.Violate("update-revision/data-undecodable", "%s: revision %s data does not decode: %v", where, upd, err)
			}
			if !c19Equal.DeepEqual(got, want) {
				rep.Violate("update-revision/data-differs-from-template", "%s: the data of update revision %s differs from the set's template at %s%s", where, upd, explain(*want, *got), jsonPair(*want, *got))
			}
			applied, err := statefulset.ApplyRevision(cached, R)
			if err != nil {
				rep.Violate("update-revision/apply-failed", "%s: ApplyRevision(%s) failed: %v", where, upd, err)
			}
			if !c19Equal.DeepEqual(&applied.Spec.Template, want) {
				rep.Violate("update-revision/apply-does-not-reproduce-template", "%s: applying update revision %s to the set does not reproduce its template, differs at %s", where, upd, explain(*want, applied.Spec.Template))
			}
			var creates []*sim.Action
			for _, a := range r.Actions {
				if a.Resource == "controllerrevisions" && a.Verb == "create" && a.Err == nil {
					creates = append(creates, a)
				}
			}
			// was a revision recording this template already stored (and owned) before the reconcile?
			var earlier *appsv1.ControllerRevision
			var maxOther int64 = -1 << 62
			for _, rv := range revsBefore {
				if !isControlledBy(rv.OwnerReferences, cached.UID) {
					continue
				}
				if t, err := revTemplate(rv); err == nil && c19Equal.DeepEqual(t, want) && rv.Labels["app"] == "web" {
					if earlier == nil || rv.Revision > earlier.Revision {
						earlier = rv
					}
				}
			}
			for _, rv := range cl.Revs() {
				if rv.Name != upd && isControlledBy(rv.OwnerReferences, cached.UID) && rv.Revision > maxOther {
					maxOther = rv.Revision
				}
			}
			if earlier != nil {
				if len(creates) > 0 {
					rep.Violate("revision/created-although-equivalent-exists", "%s: a new revision %s was created although %s already records this template\n%s", where, creates[0].Name, earlier.Name, r.Transcript())
				}
				if upd != earlier.Name {
					same := false
					if alt := cl.Rev(NS, upd); alt != nil {
						if t, err := revTemplate(alt); err == nil && c19Equal.DeepEqual(t, want) {
							same = true
						}
					}
					if !same {
						rep.Violate("revision/rollback-not-reused", "%s: template went back to one recorded by %s but the update revision is %s\n%s", where, earlier.Name, upd, r.Transcript())
					}
				}
				if R.Revision <= maxOther {
					rep.Violate("revision/rollback-not-renumbered-above-others", "%s: update revision %s has revision number %d, another revision has %d\n%s", where, upd, R.Revision, maxOther, r.Transcript())
				}
				if last.hasBase && last.tmpl != cur {
					sawRollback = true
				}
			}
			if last.hasBase && last.tmpl == cur && !templateEditSince {
				// template unchanged since the last successful reconcile (failed reconciles in between may have acted
				// on other templates - rolled back, trimmed - so "same template as last time" alone is not "unchanged")
				if len(creates) > 0 {
					rep.Violate("revision/created-for-unchanged-template", "%s: reconciling an unchanged template created revision %s\n%s", where, creates[0].Name, r.Transcript())
				}
				if upd != last.updRev {
					rep.Violate("update-revision/changed-without-template-edit", "%s: status.updateRevision moved %q -> %q although only non-template fields changed (a rolling restart would start)\n%s", where, last.updRev, upd, r.Transcript())
				}
				if nonTemplateEditSince {
					sawNonTemplateEdit = true
				}
			}
			// planted colliding objects are never overwritten; identical ones are re-used
			for _, pl := range plants {
				st := cl.Rev(NS, pl.name)
				if st == nil {
					continue // trimmed later as history: not this property's business
				}
				if !pl.same {
					if string(st.UID) != pl.uid {
						continue
					}
					if !bytes.Equal(st.Data.Raw, pl.raw) {
						rep.Violate("collision/foreign-revision-overwritten", "%s: revision %s (different data, planted under the colliding name) was overwritten", where, pl.name)
					}
					if upd == pl.name {
						rep.Violate("collision/different-revision-adopted-as-update", "%s: status.updateRevision names %s whose data differs from the template", where, pl.name)
					}
				}
			}
			last = lastOK{tmpl: cur, updRev: upd, nrevs: len(cl.Revs()), hasBase: true}
			nonTemplateEditSince = false
			templateEditSince = false
		}
	}
	rep.FP(worldFPAny(c.Ops), len(c.Templates), c.Limit, c.Sel, worldFPAny(c.Templates))
	if sawRollback {
		rep.Label("rollback")
	}
	if sawNonTemplateEdit {
		rep.Label("non-template-edit-between-reconciles")
	}
	if sawRollback || sawNonTemplateEdit || sawCollision {
		rep.Nontrivial()
	}
}

func TestC08(t *testing.T)        { checkCases(t, "C08", genC08, runC08) }
func TestRegressC08(t *testing.T) { regress(t, "C08", runC08) }

var _ = metav1.Now

// jsonPair renders two values as JSON when a structural comparison found no path (diagnostics only).
func jsonPair(a, b interface{}) string {
	if explain(a, b) != "" {
		return ""
	}
	ja, _ := json.Marshal(a)
	jb, _ := json.Marshal(b)
	if len(ja) > 3000 {
		ja = ja[:3000]
	}
	if len(jb) > 3000 {
		jb = jb[:3000]
	}
	return fmt.Sprintf("\n want %s\n got  %s", ja, jb)
}
