package props

import (
	"bytes"
	"fmt"
	"sort"

	appsv1 "k8s.io/api/apps/v1"
	corev1 "k8s.io/api/core/v1"
	metav1 "k8s.io/apimachinery/pkg/apis/meta/v1"
	"k8s.io/apimachinery/pkg/labels"

	asv1 "github.com/pingcap/advanced-statefulset/client/apis/apps/v1"

	"verifharness/model"
	"verifharness/sim"
)

// View is the harness's own reading of what one reconcile saw (its cache snapshot) — the
// reference against which the API calls of that reconcile are judged. It is computed from the
// property statements (membership = name S-<ordinal> + selector match + owned by UID or adopted),
// not by calling the controller's helpers.
type View struct {
	Rec  *sim.Record
	Set  *asv1.StatefulSet
	Name string

	R     int
	Slots map[int]bool
	D     []int
	Dset  map[int]bool
	MaxD  int

	RollingUpdate bool
	OnDelete      bool
	HasBlock      bool
	Partition     int
	Parallel      bool
	Deleting      bool
	Paused        bool

	SetImage string
	RevImage map[string]string // revision name -> template image, over revisions stored before or after
	// ForeignObs: the observedGeneration somebody else last wrote into the status (OpStatusRestored), 0 if nobody did
	ForeignObs int64
	// RevTemplate: revision name -> the whole template it records (harness-side JSON decode)
	RevTemplate map[string]*corev1.PodTemplateSpec

	Selector labels.Selector
	// Claimed: pods of the snapshot the controller may treat as the set's pods in this reconcile,
	// by canonical ordinal: controlled by the set's UID and matching, or orphans it adopted in this
	// very reconcile (successful adopt patch in the log).
	Claimed map[int]*corev1.Pod
	// Adoptable: unowned, non-terminating, matching pods of the snapshot (by name)
	Adoptable map[string]*corev1.Pod
	// Releasable: controlled by the set's UID but failing name or selector (by name)
	Releasable map[string]*corev1.Pod
	// Foreign: pods with another controller (by name)
	Foreign map[string]*corev1.Pod
	// Odd: pods with the set's name as parent but a non-canonical ordinal (web-01, web-99999999999)
	Odd    map[string]*corev1.Pod
	ByName map[string]*corev1.Pod

	resolvedDone bool
	resolved     string
	candidates   map[string]bool
}

func parseSlots(set *asv1.StatefulSet) map[int]bool {
	// the harness' own reading of the annotation (see strictSlots in c01_test.go): a list of int32 literals
	// denotes those slots, any other value denotes none. Worlds never write lists with null elements.
	v, ok := set.Annotations["delete-slots"]
	if !ok {
		return map[int]bool{}
	}
	out, _ := strictSlots(v)
	if out == nil {
		out = map[int]bool{}
	}
	return out
}

func isAdoptPatch(a *sim.Action, uid string) bool {
	return a.Verb == "patch" && !bytes.Contains(a.Patch, []byte(`"$patch":"delete"`)) && bytes.Contains(a.Patch, []byte(`"uid":"`+uid+`"`)) &&
		bytes.Contains(a.Patch, []byte(`"ownerReferences"`))
}

func isReleasePatch(a *sim.Action) bool {
	return a.Verb == "patch" && bytes.Contains(a.Patch, []byte(`"$patch":"delete"`))
}

func NewView(rec *sim.Record) *View {
	set := rec.CacheSet
	if set == nil {
		return nil
	}
	v := &View{Rec: rec, Set: set, Name: set.Name, RevImage: map[string]string{}, RevTemplate: map[string]*corev1.PodTemplateSpec{}, Claimed: map[int]*corev1.Pod{},
		Adoptable: map[string]*corev1.Pod{}, Releasable: map[string]*corev1.Pod{}, Foreign: map[string]*corev1.Pod{},
		Odd: map[string]*corev1.Pod{}, ByName: map[string]*corev1.Pod{}}
	if set.Spec.Replicas != nil {
		v.R = int(*set.Spec.Replicas)
	}
	v.Slots = parseSlots(set)
	v.D = model.Desired(v.R, v.Slots)
	v.Dset = map[int]bool{}
	v.MaxD = -1
	for _, i := range v.D {
		v.Dset[i] = true
		v.MaxD = i
	}
	// an omitted type means RollingUpdate ("Default is RollingUpdate", types.go; the CRD does not default it)
	v.RollingUpdate = set.Spec.UpdateStrategy.Type == asv1.RollingUpdateStatefulSetStrategyType || set.Spec.UpdateStrategy.Type == ""
	v.OnDelete = set.Spec.UpdateStrategy.Type == asv1.OnDeleteStatefulSetStrategyType
	if ru := set.Spec.UpdateStrategy.RollingUpdate; ru != nil {
		v.HasBlock = true
		if ru.Partition != nil {
			v.Partition = int(*ru.Partition)
		}
	}
	v.Parallel = set.Spec.PodManagementPolicy == asv1.ParallelPodManagement
	v.Deleting = set.DeletionTimestamp != nil
	v.Paused = set.Annotations["paused-reconcile"] == "true"
	if len(set.Spec.Template.Spec.Containers) > 0 {
		v.SetImage = set.Spec.Template.Spec.Containers[0].Image
	}
	for _, l := range [][]*appsv1.ControllerRevision{rec.RevsBefore, rec.RevsAfter} {
		for _, r := range l {
			if r.Namespace == set.Namespace {
				v.RevImage[r.Name] = revImage(r)
				if t, err := revTemplate(r); err == nil {
					v.RevTemplate[r.Name] = t
				}
			}
		}
	}
	sel, err := metav1.LabelSelectorAsSelector(set.Spec.Selector)
	if err != nil {
		sel = labels.Nothing()
	}
	v.Selector = sel
	adopted := map[string]bool{}
	for _, a := range rec.Actions {
		if a.Resource == "pods" && a.Err == nil && isAdoptPatch(a, string(set.UID)) {
			adopted[a.Name] = true
		}
	}
	for _, p := range rec.CachePods {
		if p.Namespace != set.Namespace {
			continue
		}
		v.ByName[p.Name] = p
		parent, _, shaped := model.ParsePodName(p.Name)
		ord, canonical := model.Canonical(set.Name, p.Name)
		nameOK := canonical
		if !canonical && parent == set.Name {
			// S-<digits> but not canonical decimal / out of int32: ambiguous under "name is S-<ordinal>"
			v.Odd[p.Name] = p
		}
		_ = shaped
		matches := nameOK && sel.Matches(labels.Set(p.Labels))
		ctl := controllerOf(p.OwnerReferences)
		switch {
		case ctl != nil && ctl.UID == set.UID:
			if matches {
				v.Claimed[ord] = p
			} else if _, odd := v.Odd[p.Name]; !odd {
				v.Releasable[p.Name] = p
			}
		case ctl != nil:
			v.Foreign[p.Name] = p
		default:
			if matches && p.DeletionTimestamp == nil {
				v.Adoptable[p.Name] = p
				if adopted[p.Name] {
					v.Claimed[ord] = p
				}
			}
		}
	}
	return v
}

func podRev(p *corev1.Pod) string { return p.Labels["controller-revision-hash"] }

// Which stored revision is "the update revision" of this reconcile? Several stored revisions may hold
// identical data (an adopted orphan next to an own one); the controller compares revision NAMES, as
// clause (c) of C03 says. The name it resolved is known when the reconcile wrote a status, or created /
// renumbered a revision recording the cached template. Otherwise (the reconcile failed earlier, or wrote
// nothing) it is only known when exactly one stored revision records the template; with several
// candidates and no witness the question is left open and nothing is asserted either way.
func (v *View) resolveUpdate() {
	if v.resolvedDone {
		return
	}
	v.resolvedDone = true
	v.candidates = map[string]bool{}
	for name, img := range v.RevImage {
		if img == v.SetImage {
			v.candidates[name] = true
		}
	}
	for _, a := range v.Rec.Actions {
		switch {
		case a.Resource == "statefulsets" && a.Subresource == "status" && a.Verb == "update":
			if o, ok := a.Obj.(*asv1.StatefulSet); ok && v.candidates[o.Status.UpdateRevision] {
				v.resolved = o.Status.UpdateRevision
			}
		case a.Resource == "controllerrevisions" && (a.Verb == "create" || a.Verb == "update") && a.Err == nil && v.resolved == "":
			if o, ok := a.Obj.(*appsv1.ControllerRevision); ok && revImage(o) == v.SetImage && !isSyncLabelsOnly(a) {
				v.resolved = a.Name
			}
		}
	}
	if v.resolved == "" && len(v.candidates) == 1 {
		for n := range v.candidates {
			v.resolved = n
		}
	}
}

// isSyncLabelsOnly: an update that leaves the revision number alone is the label sync of the adoption
// path, not a rollback renumbering.
func isSyncLabelsOnly(a *sim.Action) bool {
	before, ok1 := a.Before.(*appsv1.ControllerRevision)
	after, ok2 := a.Obj.(*appsv1.ControllerRevision)
	return a.Verb == "update" && ok1 && ok2 && before.Revision == after.Revision
}

// UpToDate: the pod certainly carries the update revision.
func (v *View) UpToDate(p *corev1.Pod) bool {
	v.resolveUpdate()
	return v.resolved != "" && podRev(p) == v.resolved
}

// Outdated: the pod certainly does not carry the update revision.
func (v *View) Outdated(p *corev1.Pod) bool {
	v.resolveUpdate()
	if !v.candidates[podRev(p)] {
		return true
	}
	return v.resolved != "" && podRev(p) != v.resolved
}

func healthy(p *corev1.Pod) bool {
	return p.Status.Phase == corev1.PodRunning && sim.IsReady(p) && p.DeletionTimestamp == nil
}

func runningReady(p *corev1.Pod) bool {
	return p.Status.Phase == corev1.PodRunning && sim.IsReady(p)
}

func terminal(p *corev1.Pod) bool {
	return p.Status.Phase == corev1.PodFailed || p.Status.Phase == corev1.PodSucceeded
}

// Condemned returns claimed pods outside the desired set, ascending by ordinal.
func (v *View) Condemned() []int {
	var out []int
	for ord := range v.Claimed {
		if !v.Dset[ord] {
			out = append(out, ord)
		}
	}
	sort.Ints(out)
	return out
}

func (v *View) Vacant() []int {
	var out []int
	for _, i := range v.D {
		if v.Claimed[i] == nil {
			out = append(out, i)
		}
	}
	return out
}

func (v *View) PodName(ord int) string { return fmt.Sprintf("%s-%d", v.Name, ord) }

// podActions returns the pod create/delete actions of the record, in order.
type podAct struct {
	A      *sim.Action
	Ord    int
	Create bool
	Class  string // for deletes: "scale" (a), "replace" (b), "update" (c-candidate), "nonmember"
	Target *corev1.Pod
	// CreatedHere: the delete targets a pod created earlier in the same reconcile
	CreatedHere bool
}

func (v *View) PodActs() []podAct {
	var out []podAct
	createdHere := map[string]*corev1.Pod{}
	for _, a := range v.Rec.Actions {
		if a.Resource != "pods" || a.Subresource != "" || (a.Verb != "create" && a.Verb != "delete") {
			continue
		}
		pa := podAct{A: a, Create: a.Verb == "create", Ord: -1}
		if ord, ok := model.Canonical(v.Name, a.Name); ok {
			pa.Ord = ord
		}
		if pa.Create && a.Err == nil {
			if p, ok := a.Obj.(*corev1.Pod); ok {
				createdHere[a.Name] = p
			}
		}
		if !pa.Create {
			pa.Target = v.ByName[a.Name]
			switch {
			case createdHere[a.Name] != nil && pa.Ord >= 0 && v.Dset[pa.Ord]:
				// deleting a pod this very reconcile created: judged on the created object
				pa.Target = createdHere[a.Name]
				pa.Class = "update"
				pa.CreatedHere = true
			case pa.Ord < 0 || v.Claimed[pa.Ord] == nil || v.Claimed[pa.Ord].Name != a.Name:
				pa.Class = "nonmember"
			case !v.Dset[pa.Ord]:
				pa.Class = "scale"
			case terminal(v.Claimed[pa.Ord]):
				pa.Class = "replace"
			default:
				pa.Class = "update"
			}
		}
		out = append(out, pa)
	}
	return out
}

// APIFailure: something outside the controller went wrong during this reconcile - an API call failed or was
// faulted, an injected cache lookup failed, or the process "died". A reconcile that returns an error although
// none of this happened gave up by itself.
func (v *View) APIFailure() bool {
	if v.Rec.Crashed || v.Rec.Panic != nil || v.Rec.LookupFailed {
		return true
	}
	for _, a := range v.Rec.Actions {
		if a.Faulted || a.Err != nil {
			return true
		}
	}
	return false
}
