package props

import (
	"fmt"
	"sort"
	"testing"
	"time"

	corev1 "k8s.io/api/core/v1"
	apierrors "k8s.io/apimachinery/pkg/api/errors"
	metav1 "k8s.io/apimachinery/pkg/apis/meta/v1"
	"k8s.io/apimachinery/pkg/labels"
	"k8s.io/apimachinery/pkg/types"
	"k8s.io/client-go/tools/cache"
	"k8s.io/client-go/util/workqueue"
	"pgregory.net/rapid"

	asv1 "github.com/pingcap/advanced-statefulset/client/apis/apps/v1"
	"github.com/pingcap/advanced-statefulset/client/apis/apps/v1/helper"

	"verifharness/sim"
)

// C16 — no lost wake-ups: every relevant event gets the right set reconciled.

type EvPod struct {
	Name   string `json:"name"`
	Owner  int    `json:"owner"`  // 0 none, 1 set A, 2 A with a stale UID, 3 other kind named like A, 4 set B, 5 unknown set name, 6 set A, the reference written with the other served API version (v1alpha1)
	Labels int    `json:"labels"` // 0 match A(+B if overlapping), 1 match B only, 2 none matching, 3 nil, 4 match A plus extra
	RV     string `json:"rv"`
	Term   bool   `json:"term,omitempty"`
}

type Ev struct {
	// Kind: 0 pod add, 1 pod update, 2 pod delete, 3 pod delete via tombstone, 4 tombstone holding a non-pod,
	// 5 set add, 6 set update, 7 set delete, 8 set delete via tombstone, 9 worker steps, 10 the selector of the set
	// (and its template labels) is edited in place - app=web <-> app=other - and the set informer delivers the update
	Kind int   `json:"kind"`
	Old  EvPod `json:"old"`
	Cur  EvPod `json:"cur"`
	Set  int   `json:"set"` // which set for set events: 0 A, 1 B, 2 C
	// worker steps: outcomes, true = the reconcile fails
	Outcomes []bool `json:"outcomes,omitempty"`
	// EarlyExit (worker steps): after the drawn outcomes one more reconcile succeeds without doing anything -
	// 1 the set has been paused, 2 the set is gone from the cache - and must clear the backoff all the same
	EarlyExit int `json:"early_exit,omitempty"`
}

type C16Case struct {
	Overlap  bool `json:"overlap"` // B's selector equals A's
	HasB     bool `json:"has_b"`
	HasEmpty bool `json:"has_empty"` // a set with an empty selector is cached
	// ExprA / ExprB: the selector of set A / B is written with matchExpressions only (app In [..]) - same meaning
	ExprA  bool `json:"expr_a,omitempty"`
	ExprB  bool `json:"expr_b,omitempty"`
	Events []Ev `json:"events"`
}

func (c C16Case) Summary() interface{} { return c }

func genEvPod(rt *rapid.T, label string) EvPod {
	return EvPod{
		Name:   rapid.SampledFrom([]string{"web-0", "web-1", "web-7", "zz-other-0", "stray"}).Draw(rt, label+"Name"),
		Owner:  rapid.SampledFrom([]int{0, 0, 1, 1, 1, 2, 3, 4, 5, 6}).Draw(rt, label+"Owner"),
		Labels: rapid.SampledFrom([]int{0, 0, 0, 1, 2, 3, 4}).Draw(rt, label+"Labels"),
		RV:     rapid.SampledFrom([]string{"1", "2", "3"}).Draw(rt, label+"RV"),
		Term:   rapid.IntRange(0, 5).Draw(rt, label+"Term") == 0,
	}
}

func genC16(rt *rapid.T) C16Case {
	c := C16Case{Overlap: rapid.Bool().Draw(rt, "overlap"), HasB: rapid.IntRange(0, 3).Draw(rt, "hasB") != 0, HasEmpty: rapid.Bool().Draw(rt, "hasEmpty"),
		ExprA: rapid.IntRange(0, 3).Draw(rt, "exprA") == 0, ExprB: rapid.IntRange(0, 3).Draw(rt, "exprB") == 0}
	n := rapid.IntRange(1, 20).Draw(rt, "nevents")
	for i := 0; i < n; i++ {
		e := Ev{Kind: rapid.SampledFrom([]int{0, 0, 1, 1, 1, 1, 2, 2, 3, 4, 5, 6, 6, 7, 8, 9, 10}).Draw(rt, "evKind")}
		switch {
		case e.Kind <= 4:
			e.Cur = genEvPod(rt, "cur")
			if e.Kind == 1 {
				e.Old = genEvPod(rt, "old")
				e.Old.Name = e.Cur.Name
				// bias: often only one aspect changes
				switch rapid.IntRange(0, 4).Draw(rt, "updShape") {
				case 0:
					e.Old = e.Cur
					e.Old.RV = "0"
				case 1:
					o := e.Cur
					o.RV = "0"
					o.Owner = e.Old.Owner
					e.Old = o
				case 2:
					o := e.Cur
					o.RV = "0"
					o.Labels = e.Old.Labels
					e.Old = o
				}
			}
		case e.Kind <= 8 || e.Kind == 10:
			e.Set = rapid.IntRange(0, 2).Draw(rt, "whichSet")
		default:
			if rapid.IntRange(0, 3).Draw(rt, "longFailureRun") == 0 {
				// a long outage: many consecutive failures, then success
				k := rapid.IntRange(12, 40).Draw(rt, "runLen")
				for j := 0; j < k; j++ {
					e.Outcomes = append(e.Outcomes, true)
				}
				e.Outcomes = append(e.Outcomes, false)
			} else {
				k := rapid.IntRange(1, 5).Draw(rt, "nsteps")
				for j := 0; j < k; j++ {
					e.Outcomes = append(e.Outcomes, rapid.Bool().Draw(rt, "fails"))
				}
				if rapid.IntRange(0, 2).Draw(rt, "earlyExit") == 0 {
					e.Outcomes = append(e.Outcomes, true) // make sure there is a backoff to clear
					e.EarlyExit = rapid.IntRange(1, 2).Draw(rt, "earlyExitKind")
				}
			}
		}
		c.Events = append(c.Events, e)
	}
	return c
}

type c16World struct {
	c    *sim.Cluster
	sets []*asv1.StatefulSet // cached sets (A, maybe B, maybe C)
	cs   C16Case
}

func (w *c16World) mkPod(p EvPod) *corev1.Pod {
	tr := true
	pod := &corev1.Pod{ObjectMeta: metav1.ObjectMeta{Name: p.Name, Namespace: NS, ResourceVersion: p.RV, UID: types.UID("uid-" + p.Name)}}
	switch p.Labels {
	case 0:
		pod.Labels = map[string]string{"app": "web"}
	case 1:
		pod.Labels = map[string]string{"app": "other"}
	case 2:
		pod.Labels = map[string]string{"unrelated": "x"}
	case 3:
		pod.Labels = nil
	case 4:
		pod.Labels = map[string]string{"app": "web", "extra": "y"}
	}
	switch p.Owner {
	case 1:
		pod.OwnerReferences = []metav1.OwnerReference{{APIVersion: "apps.pingcap.com/v1", Kind: "StatefulSet", Name: "web", UID: "uid-A", Controller: &tr}}
	case 2:
		pod.OwnerReferences = []metav1.OwnerReference{{APIVersion: "apps.pingcap.com/v1", Kind: "StatefulSet", Name: "web", UID: "uid-A-old", Controller: &tr}}
	case 3:
		pod.OwnerReferences = []metav1.OwnerReference{{APIVersion: "apps/v1", Kind: "ReplicaSet", Name: "web", UID: "uid-A", Controller: &tr}}
	case 4:
		pod.OwnerReferences = []metav1.OwnerReference{{APIVersion: "apps.pingcap.com/v1", Kind: "StatefulSet", Name: "zz-other", UID: "uid-B", Controller: &tr}}
	case 5:
		pod.OwnerReferences = []metav1.OwnerReference{{APIVersion: "apps.pingcap.com/v1", Kind: "StatefulSet", Name: "nosuchset", UID: "uid-X", Controller: &tr}}
	case 6:
		// the CRD serves v1alpha1 and v1 of the same object; ownership is by UID
		pod.OwnerReferences = []metav1.OwnerReference{{APIVersion: "apps.pingcap.com/v1alpha1", Kind: "StatefulSet", Name: "web", UID: "uid-A", Controller: &tr}}
	}
	if p.Term {
		ts := metav1.Unix(1600000000, 0)
		pod.DeletionTimestamp = &ts
	}
	return pod
}

// reference model ------------------------------------------------------------------------------

func (w *c16World) resolve(pod *corev1.Pod) string {
	ref := controllerOf(pod.OwnerReferences)
	if ref == nil || ref.Kind != "StatefulSet" {
		return ""
	}
	for _, s := range w.sets {
		if s.Namespace == pod.Namespace && s.Name == ref.Name && s.UID == ref.UID {
			return s.Namespace + "/" + s.Name
		}
	}
	return ""
}

func (w *c16World) matching(pod *corev1.Pod) map[string]bool {
	out := map[string]bool{}
	if len(pod.Labels) == 0 {
		return out
	}
	for _, s := range w.sets {
		sel, err := metav1.LabelSelectorAsSelector(s.Spec.Selector)
		if err != nil || sel.Empty() || s.Namespace != pod.Namespace {
			continue
		}
		if sel.Matches(labels.Set(pod.Labels)) {
			out[s.Namespace+"/"+s.Name] = true
		}
	}
	return out
}

func union(ms ...map[string]bool) map[string]bool {
	out := map[string]bool{}
	for _, m := range ms {
		for k := range m {
			out[k] = true
		}
	}
	return out
}

func one(k string) map[string]bool {
	if k == "" {
		return map[string]bool{}
	}
	return map[string]bool{k: true}
}

// bounds returns the keys that must (req) and may (allow) be enqueued for a pod event.
func (w *c16World) boundsDelete(pod *corev1.Pod) (req, allow map[string]bool) {
	req = one(w.resolve(pod))
	return req, union(req, w.matching(pod))
}

func (w *c16World) boundsAdd(pod *corev1.Pod) (req, allow map[string]bool) {
	if pod.DeletionTimestamp != nil {
		return w.boundsDelete(pod)
	}
	if controllerOf(pod.OwnerReferences) != nil {
		req = one(w.resolve(pod))
		return req, req
	}
	req = w.matching(pod)
	return req, req
}

func refEqual(a, b *metav1.OwnerReference) bool {
	if a == nil || b == nil {
		return a == b
	}
	return a.UID == b.UID && a.Name == b.Name && a.Kind == b.Kind && a.APIVersion == b.APIVersion
}

func (w *c16World) boundsUpdate(old, cur *corev1.Pod) (req, allow map[string]bool) {
	oldRef, curRef := controllerOf(old.OwnerReferences), controllerOf(cur.OwnerReferences)
	general := union(one(w.resolve(old)), one(w.resolve(cur)), w.matching(cur), w.matching(old))
	if old.ResourceVersion == cur.ResourceVersion {
		return map[string]bool{}, general // a re-list replay: nothing is required
	}
	req = map[string]bool{}
	refChanged := !refEqual(oldRef, curRef)
	if refChanged && oldRef != nil {
		req = union(req, one(w.resolve(old)))
	}
	if curRef != nil {
		req = union(req, one(w.resolve(cur)))
		return req, general
	}
	labelChanged := fmt.Sprint(old.Labels) != fmt.Sprint(cur.Labels)
	if labelChanged || refChanged {
		req = union(req, w.matching(cur))
	}
	return req, general
}

func (w *c16World) drain() map[string]bool {
	q := w.c.Ctrl().VerifQueue()
	out := map[string]bool{}
	for q.Len() > 0 {
		k, _ := q.Get()
		out[k.(string)] = true
		q.Done(k)
		q.Forget(k)
	}
	return out
}

func checkBounds(rep Rep, what string, got, req, allow map[string]bool) {
	for k := range req {
		if !got[k] {
			rep.Violate("enqueue/lost-wakeup:"+what, "%s: set %s was not enqueued (enqueued %v, required %v)", what, k, keys(got), keys(req))
		}
	}
	for k := range got {
		if !allow[k] {
			rep.Violate("enqueue/spurious:"+what, "%s: set %s was enqueued although the event is unrelated to it (allowed %v)", what, k, keys(allow))
		}
	}
}

func runC16(rep Rep, cs C16Case) {
	c := sim.New()
	defer c.Close()
	w := &c16World{c: c, cs: cs}
	a := baseSet(NS, "web", 1)
	a.UID = "uid-A"
	w.sets = append(w.sets, a)
	if cs.HasB {
		b := baseSet(NS, "zz-other", 1)
		b.UID = "uid-B"
		if cs.Overlap {
			b.Spec.Selector = a.Spec.Selector.DeepCopy()
		} else {
			b.Spec.Selector = &metav1.LabelSelector{MatchLabels: map[string]string{"app": "other"}}
		}
		w.sets = append(w.sets, b)
	}
	asExpr := func(s *asv1.StatefulSet) {
		var reqs []metav1.LabelSelectorRequirement
		for k, v := range s.Spec.Selector.MatchLabels {
			reqs = append(reqs, metav1.LabelSelectorRequirement{Key: k, Operator: metav1.LabelSelectorOpIn, Values: []string{v}})
		}
		s.Spec.Selector = &metav1.LabelSelector{MatchExpressions: reqs}
	}
	if cs.ExprA {
		asExpr(a)
	}
	if cs.ExprB && len(w.sets) > 1 {
		asExpr(w.sets[1])
	}
	if cs.HasEmpty {
		e := baseSet(NS, "empty-selector", 1)
		e.UID = "uid-C"
		e.Spec.Selector = &metav1.LabelSelector{}
		w.sets = append(w.sets, e)
	}
	for i, s := range w.sets {
		w.sets[i] = c.Put(s).(*asv1.StatefulSet)
	}
	c.RefreshAll()
	w.drain()
	nontrivial := false
	for _, e := range cs.Events {
		switch e.Kind {
		case 0:
			pod := w.mkPod(e.Cur)
			for _, h := range c.PodHandlers() {
				h.OnAdd(pod, false)
			}
			req, allow := w.boundsAdd(pod)
			checkBounds(rep, "pod-add", w.drain(), req, allow)
			if len(req) > 0 && len(w.sets) > 1 {
				nontrivial = true
			}
		case 1:
			old, cur := w.mkPod(e.Old), w.mkPod(e.Cur)
			for _, h := range c.PodHandlers() {
				h.OnUpdate(old, cur)
			}
			req, allow := w.boundsUpdate(old, cur)
			what := "pod-update"
			if !refEqual(controllerOf(old.OwnerReferences), controllerOf(cur.OwnerReferences)) {
				what = "pod-update-owner-changed"
				if old.ResourceVersion != cur.ResourceVersion {
					nontrivial = true
					rep.Label("owner-change-event")
				}
			}
			checkBounds(rep, what, w.drain(), req, allow)
		case 2, 3:
			pod := w.mkPod(e.Cur)
			var obj interface{} = pod
			what := "pod-delete"
			if e.Kind == 3 {
				obj = cache.DeletedFinalStateUnknown{Key: NS + "/" + pod.Name, Obj: pod}
				what = "pod-delete-tombstone"
				nontrivial = true
				rep.Label("tombstone-event")
			}
			for _, h := range c.PodHandlers() {
				h.OnDelete(obj)
			}
			req, allow := w.boundsDelete(pod)
			checkBounds(rep, what, w.drain(), req, allow)
		case 4:
			for _, h := range c.PodHandlers() {
				h.OnDelete(cache.DeletedFinalStateUnknown{Key: NS + "/x", Obj: &corev1.Service{}})
				h.OnDelete("not an object")
			}
			checkBounds(rep, "tombstone-non-pod", w.drain(), map[string]bool{}, map[string]bool{})
		case 5, 6, 7, 8:
			s := w.sets[e.Set%len(w.sets)]
			key := s.Namespace + "/" + s.Name
			for _, h := range c.SetHandlers() {
				switch e.Kind {
				case 5:
					h.OnAdd(s, false)
				case 6:
					// any change: here an annotation-only change with a new resource version
					n := s.DeepCopy()
					n.ResourceVersion = s.ResourceVersion + "1"
					n.Annotations = map[string]string{"note": "x"}
					h.OnUpdate(s, n)
				case 7:
					h.OnDelete(s)
				case 8:
					h.OnDelete(cache.DeletedFinalStateUnknown{Key: key, Obj: s})
				}
			}
			checkBounds(rep, []string{"set-add", "set-update", "set-delete", "set-delete-tombstone"}[e.Kind-5], w.drain(), one(key), one(key))
		case 9:
			w.workerSteps(rep, e.Outcomes, e.EarlyExit)
		case 10:
			i := e.Set % len(w.sets)
			old := w.sets[i]
			n := old.DeepCopy()
			val := "other"
			if sel, err := metav1.LabelSelectorAsSelector(old.Spec.Selector); err == nil && sel.Matches(labels.Set{"app": "other"}) && !sel.Empty() {
				val = "web"
			}
			n.Spec.Selector = &metav1.LabelSelector{MatchLabels: map[string]string{"app": val}}
			n.Spec.Template.Labels = map[string]string{"app": val}
			w.sets[i] = c.Put(n).(*asv1.StatefulSet)
			// (the pods earlier worker steps created go with the old selector: the worker steps of this check want a set
			// whose reconcile can succeed, not one whose names are taken by its own released pods)
			for _, p := range c.PodsIn(NS) {
				c.Remove(sim.GVRPods, NS, p.Name)
			}
			c.RefreshAll()
			w.drain()
			for _, h := range c.SetHandlers() {
				h.OnUpdate(old, w.sets[i])
			}
			key := old.Namespace + "/" + old.Name
			checkBounds(rep, "set-update-selector", w.drain(), one(key), one(key))
			nontrivial = true
			rep.Label("selector-edited-in-place")
		}
	}
	rep.FP(worldFPAny(cs))
	if nontrivial {
		rep.Nontrivial()
	}
}

// workerSteps drives real worker steps on set A with drawn outcomes: a failing reconcile must
// bump the key's requeue counter by exactly one and bring the key back (after its backoff), a
// succeeding one must clear the counter.
func (w *c16World) workerSteps(rep Rep, outcomes []bool, earlyExit int) {
	c := w.c
	// a queue of the same kind with a fast rate limiter: long runs of failures must not take minutes of
	// real backoff (the controller's own limiter reaches 82 s after 15 failures)
	orig := c.Ctrl().VerifQueue()
	fast := workqueue.NewNamedRateLimitingQueue(workqueue.NewItemExponentialFailureRateLimiter(time.Nanosecond, time.Microsecond), "verif")
	c.Ctrl().VerifSetQueue(fast)
	defer func() {
		c.Ctrl().VerifSetQueue(orig)
		fast.ShutDown()
	}()
	q := c.Ctrl().VerifQueue()
	key := NS + "/web"
	w.drain()
	q.Forget(key)
	q.Add(key)
	prev := 0
	for i, fail := range outcomes {
		deadline := time.Now().Add(10 * time.Second)
		for q.Len() == 0 && time.Now().Before(deadline) {
			time.Sleep(time.Millisecond)
		}
		if q.Len() == 0 {
			rep.Violate("worker/key-not-re-added", "step %d: after a failed reconcile the key never came back into the queue (requeues=%d)", i, q.NumRequeues(key))
		}
		c.RefreshAll() // the reconcile itself must be able to succeed: give it fresh caches
		first := true
		c.Intercept = func(a *sim.Action) *sim.Fault {
			if fail && first {
				first = false
				return &sim.Fault{Err: apierrors.NewInternalError(fmt.Errorf("injected"))}
			}
			return nil
		}
		c.Ctrl().VerifProcessNextWorkItem()
		c.Intercept = nil
		n := q.NumRequeues(key)
		if fail {
			if n != prev+1 {
				rep.Violate("worker/failure-not-rate-limited", "step %d: failing reconcile left the requeue counter at %d (was %d): the key was not put back with backoff", i, n, prev)
			}
			prev = n
		} else {
			if n != 0 {
				rep.Violate("worker/success-not-forgotten", "step %d: successful reconcile left the requeue counter at %d", i, n)
			}
			prev = 0
			q.Add(key)
		}
	}
	if earlyExit != 0 && prev > 0 {
		// the key comes back after its backoff; meanwhile the set was paused / deleted: the reconcile has nothing to
		// do and succeeds, which clears the backoff like any success
		deadline := time.Now().Add(10 * time.Second)
		for q.Len() == 0 && time.Now().Before(deadline) {
			time.Sleep(time.Millisecond)
		}
		var saved *asv1.StatefulSet
		if earlyExit == 1 {
			c.UpdateSet(NS, "web", func(x *asv1.StatefulSet) { helper.SetPausedReconcile(x, true) })
		} else {
			saved = c.Set(NS, "web")
			c.Remove(sim.GVRASts, NS, "web")
		}
		c.RefreshAll()
		if q.Len() == 0 {
			q.Add(key)
		}
		c.Ctrl().VerifProcessNextWorkItem()
		if n := q.NumRequeues(key); n != 0 {
			rep.Violate("worker/success-not-forgotten", "after %d failures the set was %s; the next reconcile has nothing to do and succeeds, but the requeue counter stays at %d", prev, map[int]string{1: "paused", 2: "deleted"}[earlyExit], n)
		}
		rep.Label("worker:success-by-early-exit")
		prev = 0
		if earlyExit == 1 {
			c.UpdateSet(NS, "web", func(x *asv1.StatefulSet) { helper.SetPausedReconcile(x, false) })
		} else if saved != nil {
			saved.ResourceVersion = ""
			c.Put(saved)
		}
		c.RefreshAll()
	}
	// wait out a pending delayed re-add so that nothing leaks into the next event
	if prev > 0 {
		deadline := time.Now().Add(10 * time.Second)
		for q.Len() == 0 && time.Now().Before(deadline) {
			time.Sleep(time.Millisecond)
		}
	}
	w.drain()
	q.Forget(key)
	rep.Label("worker-steps")
	if len(outcomes) > 16 {
		rep.Label("worker-steps:long-failure-run")
	}
}

func TestC16(t *testing.T)        { checkCases(t, "C16", genC16, runC16) }
func TestRegressC16(t *testing.T) { regress(t, "C16", runC16) }

var _ = sort.Strings
