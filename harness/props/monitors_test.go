package props

import (
	"fmt"
	"verifharness/model"

	corev1 "k8s.io/api/core/v1"

	asv1 "github.com/pingcap/advanced-statefulset/client/apis/apps/v1"

	"verifharness/sim"
)

// Per-reconcile monitors: pure functions of a reconcile record (through its View). Each returns
// whether the reconcile was "interesting" for the property (used for the non-triviality rule).

func ctx(v *View) string { return "\n" + v.Rec.Transcript() }

// ---------------------------------------------------------------------------------------------
// C03: only pods that must go are deleted

func monC03(rep Rep, v *View) (deletes int) {
	acts := v.PodActs()
	for i, pa := range acts {
		if pa.Create {
			continue
		}
		deletes++
		if _, odd := v.Odd[pa.A.Name]; odd {
			rep.Label("delete-of-noncanonical-name(not judged)")
			continue
		}
		switch pa.Class {
		case "nonmember":
			rep.Violate("delete/non-member", "deleted %s which is not a pod of the set in the snapshot%s", pa.A.Name, ctx(v))
		case "scale":
			rep.Label("delete:scale-in")
		case "replace":
			rep.Label("delete:replace-failed")
			if pa.A.Err == nil && !v.APIFailure() {
				ok := false
				for _, nx := range acts[i+1:] {
					if nx.Create && nx.A.Name == pa.A.Name {
						ok = true
					}
					break
				}
				if !ok {
					rep.Violate("delete/failed-pod-not-replaced", "deleted failed/succeeded pod %s without immediately re-creating it%s", pa.A.Name, ctx(v))
				}
			}
		case "update":
			rep.Label("delete:update")
			t := pa.Target
			switch {
			case !v.RollingUpdate:
				rep.Violate("delete/live-pod-not-rollingupdate", "deleted live desired pod %s under strategy %q%s", pa.A.Name, v.Set.Spec.UpdateStrategy.Type, ctx(v))
			case pa.Ord < v.Partition:
				rep.Violate("delete/live-pod-below-partition", "deleted live desired pod %s below partition %d%s", pa.A.Name, v.Partition, ctx(v))
			case v.UpToDate(t):
				rep.Violate("delete/live-uptodate-desired-pod", "deleted live, up-to-date desired pod %s (revision %s = image %s)%s", pa.A.Name, podRev(t), v.SetImage, ctx(v))
			}
		}
	}
	return
}

// ---------------------------------------------------------------------------------------------
// C04: creates only at vacant desired ordinals

func monC04(rep Rep, v *View) (creates int) {
	acts := v.PodActs()
	for i, pa := range acts {
		if !pa.Create {
			continue
		}
		creates++
		if pa.Ord < 0 {
			rep.Violate("create/not-a-set-pod-name", "created pod %q whose name is not %s-<ordinal>%s", pa.A.Name, v.Name, ctx(v))
		}
		if v.Deleting {
			rep.Violate("create/for-deleting-set", "created %s for a set with a deletion timestamp%s", pa.A.Name, ctx(v))
		}
		if !v.Dset[pa.Ord] {
			if v.Slots[pa.Ord] {
				rep.Violate("create/in-delete-slot", "created %s in delete slot %d (desired %v)%s", pa.A.Name, pa.Ord, v.D, ctx(v))
			}
			rep.Violate("create/beyond-range", "created %s outside the desired ordinals %v%s", pa.A.Name, v.D, ctx(v))
		}
		if cur := v.Claimed[pa.Ord]; cur != nil {
			replaced := false
			if i > 0 && !acts[i-1].Create && acts[i-1].A.Name == pa.A.Name && acts[i-1].Class == "replace" && acts[i-1].A.Err == nil {
				replaced = true
			}
			if !replaced {
				rep.Violate("create/occupied-ordinal", "created %s although the snapshot holds that pod (%s)%s", pa.A.Name, sim.DescribePod(cur), ctx(v))
			}
		}
	}
	return
}

// ---------------------------------------------------------------------------------------------
// C05: OrderedReady discipline

func monC05(rep Rep, v *View) (interesting bool) {
	if v.Parallel {
		return false
	}
	acts := v.PodActs()
	touched := map[string]bool{}
	for _, pa := range acts {
		touched[pa.A.Name] = true
	}
	if len(touched) > 1 {
		rep.Violate("ordered/more-than-one-ordinal", "one OrderedReady reconcile created/deleted pods at %d ordinals: %v%s", len(touched), keys(touched), ctx(v))
	}
	blocked := false
	for _, j := range v.D {
		if p := v.Claimed[j]; p == nil || !healthy(p) {
			blocked = true
		}
	}
	for _, pa := range acts {
		if _, odd := v.Odd[pa.A.Name]; odd || pa.Ord < 0 {
			continue
		}
		switch {
		case pa.Create:
			for _, j := range v.D {
				if j >= pa.Ord {
					break
				}
				if p := v.Claimed[j]; p == nil || !healthy(p) {
					rep.Violate("ordered/create-with-unhealthy-predecessor", "created %s although desired ordinal %d is not Running+Ready%s", pa.A.Name, j, ctx(v))
				}
			}
		case pa.Class == "scale":
			for _, j := range v.D {
				if p := v.Claimed[j]; p == nil || !runningReady(p) {
					rep.Violate("ordered/scale-in-while-desired-pod-unready", "deleted %s for scale-in although desired ordinal %d is not Running+Ready%s", pa.A.Name, j, ctx(v))
				}
			}
			cond := v.Condemned()
			if top := cond[len(cond)-1]; top != pa.Ord {
				rep.Violate("ordered/scale-in-not-from-top", "deleted %s for scale-in although condemned pod %d is still present%s", pa.A.Name, top, ctx(v))
			}
		case pa.Class == "update":
			if c := v.Condemned(); len(c) > 0 {
				rep.Violate("ordered/update-before-scale-in", "deleted %s for update while condemned pods %v remain%s", pa.A.Name, c, ctx(v))
			}
			for _, j := range v.D {
				if p := v.Claimed[j]; p == nil || !healthy(p) {
					rep.Violate("ordered/update-while-unhealthy", "deleted %s for update although desired ordinal %d is not healthy%s", pa.A.Name, j, ctx(v))
				}
			}
		}
	}
	actionWorthy := len(v.Vacant()) > 0 || len(v.Condemned()) > 0
	for _, j := range v.D {
		if p := v.Claimed[j]; p != nil && (terminal(p) || (v.RollingUpdate && j >= v.Partition && v.Outdated(p))) {
			actionWorthy = true
		}
	}
	return actionWorthy && (blocked || len(v.Condemned()) > 1)
}

// ---------------------------------------------------------------------------------------------
// C07: rolling update honours partition, highest first; OnDelete never restarts

// modelCurrentRevision: the revision pods below the partition must be built from.
func (v *View) currentRevisionNames() map[string]bool {
	out := map[string]bool{}
	cur := v.Set.Status.CurrentRevision
	for _, r := range v.Rec.RevsBefore {
		if r.Namespace == v.Set.Namespace && r.Name == cur {
			out[cur] = true
			return out
		}
	}
	// not yet initialised: history starts at the update revision
	for name, img := range v.RevImage {
		if img == v.SetImage {
			out[name] = true
		}
	}
	return out
}

// podBuiltFrom: is pod (as the controller sent it to the API) template t plus the per-pod identity and nothing else?
// Returns a description of the first difference, "" if none. Hostname, subdomain and volumes are the identity's (C06).
func podBuiltFrom(pod *corev1.Pod, t *corev1.PodTemplateSpec) string {
	ps, ts := pod.Spec.DeepCopy(), t.Spec.DeepCopy()
	ps.Hostname, ps.Subdomain, ps.Volumes = "", "", nil
	ts.Hostname, ts.Subdomain, ts.Volumes = "", "", nil
	if !c19Equal.DeepEqual(ps, ts) {
		return "spec differs at " + explain(*ts, *ps)
	}
	own := map[string]bool{"statefulset.kubernetes.io/pod-name": true, "controller-revision-hash": true}
	for k, val := range t.Labels {
		if !own[k] && pod.Labels[k] != val {
			return fmt.Sprintf("label %s=%q, the revision has %q", k, pod.Labels[k], val)
		}
	}
	for k, val := range pod.Labels {
		if _, ok := t.Labels[k]; !ok && !own[k] {
			return fmt.Sprintf("label %s=%q is not in the revision", k, val)
		}
	}
	for k, val := range t.Annotations {
		if got, ok := pod.Annotations[k]; !ok || got != val {
			return fmt.Sprintf("annotation %s=%q, the revision has %q", k, got, val)
		}
	}
	for k, val := range pod.Annotations {
		if _, ok := t.Annotations[k]; !ok {
			return fmt.Sprintf("annotation %s=%q is not in the revision", k, val)
		}
	}
	return ""
}

func monC07(rep Rep, v *View) (interesting bool) {
	acts := v.PodActs()
	updates := 0
	touched := map[int]bool{}
	for _, pa := range acts {
		if pa.Ord >= 0 {
			touched[pa.Ord] = true
		}
	}
	for _, pa := range acts {
		if pa.Ord < 0 {
			continue
		}
		if pa.Create {
			pod, _ := pa.A.Obj.(*corev1.Pod)
			if pod == nil || len(pod.Spec.Containers) == 0 {
				continue
			}
			lbl := podRev(pod)
			img := pod.Spec.Containers[0].Image
			if ri, ok := v.RevImage[lbl]; !ok || ri != img {
				rep.Violate("rolling/created-pod-label-template-mismatch", "created %s labelled %q (image %q) but built with image %q%s", pa.A.Name, lbl, ri, img, ctx(v))
			}
			if t := v.RevTemplate[lbl]; t != nil {
				if d := podBuiltFrom(pod, t); d != "" {
					rep.Violate("rolling/created-pod-not-built-from-its-revision", "created %s labelled %q, but it is not that revision's template: %s%s", pa.A.Name, lbl, d, ctx(v))
				}
			}
			if v.RollingUpdate && v.HasBlock {
				if pa.Ord < v.Partition {
					if !v.currentRevisionNames()[lbl] {
						rep.Violate("rolling/created-below-partition-not-current", "created %s (ordinal %d < partition %d) from %q, current revision is %v%s", pa.A.Name, pa.Ord, v.Partition, lbl, v.currentRevisionNames(), ctx(v))
					}
				} else if img != v.SetImage {
					rep.Violate("rolling/created-at-or-above-partition-not-update", "created %s (ordinal %d >= partition %d) with image %q, update template has %q%s", pa.A.Name, pa.Ord, v.Partition, img, v.SetImage, ctx(v))
				}
			}
			if cr := v.Set.Status.CurrentRevision; cr != "" && v.RevImage[cr] != "" && v.RevImage[cr] != v.SetImage {
				interesting = true // a (re)create while current != update revision
			}
			continue
		}
		if pa.Class != "update" {
			continue
		}
		updates++
		interesting = true
		if v.OnDelete {
			rep.Violate("rolling/ondelete-restart", "OnDelete strategy but %s was deleted because of its revision%s", pa.A.Name, ctx(v))
		}
		if !v.RollingUpdate {
			continue // C03's business
		}
		if pa.Ord < v.Partition {
			rep.Violate("rolling/update-below-partition", "deleted %s for update below partition %d%s", pa.A.Name, v.Partition, ctx(v))
		}
		for _, j := range v.D {
			if j <= pa.Ord {
				continue
			}
			p := v.Claimed[j]
			if p == nil || v.Outdated(p) || !healthy(p) {
				rep.Violate("rolling/update-not-highest-first", "deleted %s for update although higher desired ordinal %d is not (up to date, Running, Ready)%s", pa.A.Name, j, ctx(v))
			}
			if touched[j] {
				rep.Violate("rolling/update-with-other-pod-down", "deleted %s for update in a reconcile that also created/deleted higher ordinal %d%s", pa.A.Name, j, ctx(v))
			}
		}
	}
	if updates > 1 {
		rep.Violate("rolling/more-than-one-update-delete", "%d pods deleted for update in one reconcile%s", updates, ctx(v))
	}
	return
}

// ---------------------------------------------------------------------------------------------
// C12 (per-write part): status bounds, generation, currentRevision transitions

func statusWrites(rec *sim.Record) []*sim.Action {
	var out []*sim.Action
	for _, a := range rec.Actions {
		if a.Resource == "statefulsets" && a.GVR.Group == "apps.pingcap.com" && a.Verb == "update" && a.Subresource == "status" {
			out = append(out, a)
		}
	}
	return out
}

func monC12(rep Rep, v *View) (writes int) {
	for _, a := range statusWrites(v.Rec) {
		obj, ok := a.Obj.(*asv1.StatefulSet)
		if !ok {
			continue
		}
		writes++
		st := obj.Status
		// the delete site that ran in this reconcile is part of the signature (distinct root causes)
		site := "no-delete"
		for _, pa := range v.PodActs() {
			switch {
			case pa.Create:
			case pa.Class == "replace" && pa.Target != nil && pa.Target.DeletionTimestamp != nil:
				site = "replace-of-terminating-failed-pod"
			case pa.Class == "replace" && site == "no-delete":
				site = "replace-of-failed-pod"
			case pa.Class == "update" && site == "no-delete":
				site = "update-delete"
			case pa.Class == "scale" && site == "no-delete":
				site = "scale-in-delete"
			}
		}
		for _, name := range []string{"readyReplicas", "currentReplicas", "updatedReplicas"} {
			val := map[string]int32{"readyReplicas": st.ReadyReplicas, "currentReplicas": st.CurrentReplicas, "updatedReplicas": st.UpdatedReplicas}[name]
			if val < 0 {
				rep.Violate("status/"+name+"-negative@"+site, "wrote status %s=%d (replicas=%d)%s", name, val, st.Replicas, ctx(v))
			}
			if val > st.Replicas {
				rep.Violate("status/"+name+"-exceeds-replicas", "wrote status %s=%d > replicas=%d%s", name, val, st.Replicas, ctx(v))
			}
		}
		if st.Replicas < 0 {
			rep.Violate("status/replicas-negative", "wrote status replicas=%d%s", st.Replicas, ctx(v))
		}
		if a.Err != nil {
			continue
		}
		before, _ := a.Before.(*asv1.StatefulSet)
		if before == nil {
			continue
		}
		// (a stored value that was not written by this controller for this object - a status copied over from another object,
		// see OpStatusRestored: ahead of the object's own generation, or still the very value that step wrote - cannot be kept
		// by a write that reports the generation reconciled)
		foreign := before.Status.ObservedGeneration > before.Generation || (v.ForeignObs != 0 && before.Status.ObservedGeneration == v.ForeignObs)
		if st.ObservedGeneration < before.Status.ObservedGeneration && !foreign {
			rep.Violate("status/observed-generation-regressed", "observedGeneration %d written over stored %d%s", st.ObservedGeneration, before.Status.ObservedGeneration, ctx(v))
		}
		if st.ObservedGeneration != v.Set.Generation {
			rep.Violate("status/observed-generation-not-reconciled-generation", "observedGeneration %d but the reconciled (cached) object has generation %d%s", st.ObservedGeneration, v.Set.Generation, ctx(v))
		}
		// currentRevision transitions
		oldCur := before.Status.CurrentRevision
		named := false
		for _, r := range v.Rec.RevsBefore {
			if r.Namespace == v.Set.Namespace && r.Name == oldCur {
				named = true
			}
		}
		if named && st.CurrentRevision != oldCur {
			if st.CurrentRevision != st.UpdateRevision {
				rep.Violate("status/current-revision-jumped", "currentRevision %q -> %q which is not the update revision %q%s", oldCur, st.CurrentRevision, st.UpdateRevision, ctx(v))
			}
			for ord, p := range v.Claimed {
				if podRev(p) != st.UpdateRevision || !runningReady(p) {
					rep.Violate("status/rollout-completed-early", "currentRevision moved %q -> %q although pod %d is at %q ready=%v%s", oldCur, st.CurrentRevision, ord, podRev(p), runningReady(p), ctx(v))
				}
			}
		}
	}
	return
}

// ---------------------------------------------------------------------------------------------
// C14: Parallel never waits when scaling

func monC14(rep Rep, v *View) (k, m int, bystander bool) {
	if !v.Parallel || v.Deleting || v.Paused || !v.Rec.ListedPods {
		return
	}
	// "absent API errors" is judged by the API calls (and injected cache-lookup failures), not by what the
	// reconcile returns: a reconcile that gives up although every call succeeded is what the property forbids
	if v.APIFailure() {
		return
	}
	if len(v.Odd) > 0 {
		// with pods named S-<digits> that are not the canonical spelling of an ordinal around, vacancies are not
		// judged (such a pod may hold a slot). What is judged: every live pod of the set - canonical or not - whose
		// number lies outside the desired set is asked to go in this reconcile.
		deletedNames := map[string]bool{}
		for _, a := range v.Rec.Actions {
			if a.Resource == "pods" && a.Verb == "delete" {
				deletedNames[a.Name] = true
			}
		}
		var owed []string
		for _, p := range v.Rec.CachePods {
			if p.Namespace != v.Set.Namespace || p.DeletionTimestamp != nil || !isControlledBy(p.OwnerReferences, v.Set.UID) || !v.Selector.Matches(labelsOf(p)) {
				continue
			}
			parent, ord, ok := model.ParsePodName(p.Name)
			if !ok || parent != v.Name || v.Dset[ord] {
				continue
			}
			owed = append(owed, p.Name)
		}
		for _, name := range owed {
			if !deletedNames[name] {
				rep.Violate("parallel/condemned-not-deleted", "Parallel reconcile saw live pods outside the desired set %v but did not delete %s%s", owed, name, ctx(v))
			}
		}
		return 0, len(owed), false
	}
	acts := v.PodActs()
	created, deleted := map[int]bool{}, map[int]bool{}
	updates := 0
	for _, pa := range acts {
		if pa.Create {
			created[pa.Ord] = true
		} else {
			deleted[pa.Ord] = true
			if pa.Class == "update" {
				updates++
			}
		}
	}
	vac := v.Vacant()
	for _, i := range vac {
		if !created[i] {
			rep.Violate("parallel/vacancy-not-filled", "Parallel reconcile saw vacant desired ordinals %v but did not create %d%s", vac, i, ctx(v))
		}
	}
	var live []int
	for _, ord := range v.Condemned() {
		if v.Claimed[ord].DeletionTimestamp == nil {
			live = append(live, ord)
		}
	}
	for _, ord := range live {
		if !deleted[ord] {
			rep.Violate("parallel/condemned-not-deleted", "Parallel reconcile saw live condemned pods %v but did not delete %d%s", live, ord, ctx(v))
		}
	}
	if updates > 1 {
		rep.Violate("parallel/more-than-one-update-delete", "%d update deletes in one reconcile%s", updates, ctx(v))
	}
	for _, p := range v.Claimed {
		if !healthy(p) {
			bystander = true
		}
	}
	return len(vac), len(live), bystander
}

var _ = fmt.Sprint
