package props

import (
	"encoding/json"
	"flag"
	"fmt"
	"os"
	"path/filepath"
	"runtime/debug"
	"sort"
	"strings"
	"testing"

	"pgregory.net/rapid"

	"verifharness/stats"
)

// ---------------------------------------------------------------------------------------------
// shared scaffolding: known findings, signatures, evidence recording, replay files

type knownEntry struct {
	Property string `json:"property"`
	Status   string `json:"status"` // "known" | "fixed"
	Sig      string `json:"sig"`
	What     string `json:"what"`
}

var (
	knownSigs = map[string]bool{}
	recs      = map[string]*stats.Rec{}
	tier      = "quick"
)

func rec(id string) *stats.Rec {
	if r, ok := recs[id]; ok {
		return r
	}
	r := stats.New(id)
	recs[id] = r
	return r
}

func loadKnown() {
	path := os.Getenv("VERIF_KNOWN")
	if path == "" {
		path = "/verif/known_findings.json"
	}
	b, err := os.ReadFile(path)
	if err != nil {
		return
	}
	var f struct {
		Findings []knownEntry `json:"findings"`
	}
	if err := json.Unmarshal(b, &f); err != nil {
		fmt.Fprintf(os.Stderr, "known findings file unreadable: %v\n", err)
		os.Exit(2)
	}
	for _, e := range f.Findings {
		if e.Status == "known" {
			knownSigs[e.Property+"/"+e.Sig] = true
		}
	}
}

func TestMain(m *testing.M) {
	flag.Parse()
	if t := os.Getenv("VERIF_TIER"); t != "" {
		tier = t
	}
	loadKnown()
	code := m.Run()
	if dir := os.Getenv("VERIF_STATS_DIR"); dir != "" {
		for id, r := range recs {
			if err := r.Dump(fmt.Sprintf("%s/%s.stats.json", dir, id)); err != nil {
				fmt.Fprintf(os.Stderr, "stats dump: %v\n", err)
			}
		}
	}
	os.Exit(code)
}

func thorough() bool { return tier == "thorough" }

type excluded struct{}

// Rep is what oracles report to: a rapid-driven case or a plain replay of a saved case.
type Rep interface {
	// Violate reports an oracle failure under a root-cause signature. A signature listed as
	// "known" in known_findings.json is counted and the case abandoned (so the search goes on
	// past a recorded defect); anything else fails the run.
	Violate(sig, format string, args ...interface{})
	// Exclude abandons a case lying outside the property's domain (counted in the evidence).
	Exclude(reason string)
	Logf(format string, args ...interface{})
	// FP appends to the case fingerprint used for counting distinct non-trivial cases.
	FP(parts ...interface{})
	Nontrivial()
	Label(l string)
	// Sub records one evaluation of a multi-execution case (fault enumeration) right away; SkipOuter
	// keeps the enclosing generated case from being counted as an evaluation of its own.
	Sub(fp string, nontrivial bool)
	SkipOuter()
}

type base struct {
	caseType   string // regress directory / case shape ("C19", "C19Ann", ...), "" = same as id
	self       Rep    // the H or P this base belongs to (lets finish report a panic of the code under test as a violation)
	id         string
	r          *stats.Rec
	fp         strings.Builder
	nontrivial bool
	skipOuter  bool
	caseVal    interface{}
}

func (b *base) Sub(fp string, nontrivial bool) {
	b.r.Case(fp, nontrivial)
	if nontrivial && b.caseVal != nil {
		cv := b.caseVal
		b.r.Sample(func() interface{} {
			var v interface{} = cv
			if s, ok := cv.(summarizer); ok {
				v = s.Summary()
			}
			return map[string]interface{}{"execution": fp[max(0, len(fp)-40):], "case": v}
		})
	}
}
func (b *base) SkipOuter() { b.skipOuter = true }

func (b *base) FP(parts ...interface{}) {
	for _, p := range parts {
		fmt.Fprintf(&b.fp, "%v|", p)
	}
}
func (b *base) Nontrivial()    { b.nontrivial = true }
func (b *base) Label(l string) { b.r.Label(l) }
func (b *base) Exclude(reason string) {
	b.r.Exclude(reason)
	panic(excluded{})
}

func (b *base) saveReplay(sig string) {
	out := os.Getenv("VERIF_REPLAY_OUT")
	if out == "" || b.caseVal == nil {
		return
	}
	// "case_type": which run function the case belongs to (C19 has two, C18 two, C03 two): the regress test
	// of that name replays it
	doc := map[string]interface{}{"property": b.id, "sig": sig, "case_type": b.caseType, "case": b.caseVal}
	if j, err := json.MarshalIndent(doc, "", " "); err == nil {
		os.WriteFile(out, j, 0o644)
	}
}

// H: a case running under rapid.
type H struct {
	*rapid.T
	base
}

func (h *H) Violate(sig, format string, args ...interface{}) {
	if knownSigs[h.id+"/"+sig] {
		h.r.Known(sig)
		panic(excluded{})
	}
	h.saveReplay(sig)
	h.Fatalf("VIOLATION-SIG[%s] "+format, append([]interface{}{sig}, args...)...)
}

// P: a saved case replayed outside rapid.
type P struct {
	*testing.T
	base
}

func (p *P) Violate(sig, format string, args ...interface{}) {
	if knownSigs[p.id+"/"+sig] {
		p.r.Known(sig)
		panic(excluded{})
	}
	p.Fatalf("VIOLATION-SIG[%s] "+format, append([]interface{}{sig}, args...)...)
}

type summarizer interface{ Summary() interface{} }

func (b *base) finish() {
	if p := recover(); p != nil {
		if _, ok := p.(excluded); ok {
			return
		}
		// a panic raised by the code under test on the harness' own goroutine (a helper called directly) is a
		// violation like any other - with a signature and a saved case - not a crash of the test
		if st := string(debug.Stack()); b.self != nil && repoFrame(st) != "outside-repo" {
			if _, isStr := p.(string); !isStr || !strings.Contains(fmt.Sprint(p), "VIOLATION-SIG") {
				b.self.Violate("panic@"+repoFrame(st), "panic in the code under test: %v\n%s", p, st)
				return
			}
		}
		panic(p)
	}
	if !b.skipOuter {
		b.r.Case(b.fp.String(), b.nontrivial)
	}
	if b.nontrivial && b.caseVal != nil {
		cv := b.caseVal
		b.r.Sample(func() interface{} {
			if s, ok := cv.(summarizer); ok {
				return s.Summary()
			}
			return cv
		})
	}
}

// checkCases is the one driver loop: generate a case with rapid, run it against the oracle.
func checkCases[C any](t *testing.T, id string, gen func(*rapid.T) C, run func(Rep, C)) {
	r := rec(id)
	rapid.Check(t, func(rt *rapid.T) {
		h := &H{T: rt, base: base{id: id, r: r, caseType: strings.TrimPrefix(t.Name(), "Test")}}
		h.self = h
		defer h.finish()
		c := gen(rt)
		h.caseVal = c
		run(h, c)
	})
}

// runSaved replays one saved case file ({"property","sig","case"}).
func runSaved[C any](t *testing.T, id, path string, run func(Rep, C)) {
	b, err := os.ReadFile(path)
	if err != nil {
		t.Fatalf("read %s: %v", path, err)
	}
	var doc struct {
		Case C `json:"case"`
	}
	if err := json.Unmarshal(b, &doc); err != nil {
		t.Fatalf("decode %s: %v", path, err)
	}
	p := &P{T: t, base: base{id: id, r: rec(id + "-replay")}}
	p.self = p
	defer p.finish()
	p.caseVal = doc.Case
	run(p, doc.Case)
}

// regress replays every saved case under /verif/regress/<id>/ and, when VERIF_REPLAY names a
// case file for this property, that file.
func regress[C any](t *testing.T, id string, run func(Rep, C)) {
	dir := os.Getenv("VERIF_REGRESS_DIR")
	if dir == "" {
		dir = "/verif/regress"
	}
	files, _ := filepath.Glob(filepath.Join(dir, id, "*.json"))
	sort.Strings(files)
	if rp := os.Getenv("VERIF_REPLAY"); rp != "" {
		// a replay file goes to the regress test of its case type; files that do not say are taken by the
		// test whose directory they sit in, else by the property's main test
		files = nil
		var doc struct {
			Property string `json:"property"`
			CaseType string `json:"case_type"`
		}
		if b, err := os.ReadFile(rp); err == nil {
			_ = json.Unmarshal(b, &doc)
		}
		ct := doc.CaseType
		if ct == "" {
			ct = filepath.Base(filepath.Dir(rp))
			if !strings.HasPrefix(ct, doc.Property) || doc.Property == "" {
				ct = doc.Property
			}
		}
		if ct == id || (ct == "" && len(id) == 3) {
			files = []string{rp}
		}
	}
	for _, f := range files {
		f := f
		t.Run(filepath.Base(f), func(t *testing.T) { runSaved[C](t, id, f, run) })
	}
}
