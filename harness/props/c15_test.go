package props

import (
	"fmt"
	"strings"
	"testing"

	appsv1 "k8s.io/api/apps/v1"
	corev1 "k8s.io/api/core/v1"
	metav1 "k8s.io/apimachinery/pkg/apis/meta/v1"
	"k8s.io/apimachinery/pkg/runtime"
	"k8s.io/apimachinery/pkg/types"
	"pgregory.net/rapid"

	asv1 "github.com/pingcap/advanced-statefulset/client/apis/apps/v1"

	"verifharness/sim"
)

// C15 — no object admitted by manifests/crd.v1.yaml can make a reconcile panic.
//
// The domain is what the CRD's structural schema enforces and nothing more: spec.replicas and
// spec.revisionHistoryLimit present and >= 0 (the schema defaults them), selector / template /
// serviceName present; every other field free (x-kubernetes-preserve-unknown-fields), limited
// only by what decodes into the Go types.

type C15Case struct {
	Set       *asv1.StatefulSet            `json:"set"`
	Defaulted bool                         `json:"defaulted"`
	Pods      []*corev1.Pod                `json:"pods"`
	Revs      []*appsv1.ControllerRevision `json:"revs"`
	Steps     []int                        `json:"steps"` // 6 the stored status loses an optional field (collisionCount: an older client or a status patch wrote it) and the set is reconciled again; 0 reconcile, 1 kubelet-all, 2 reconcile with permuted cache, 3 refresh, 4 the set is deleted with orphan propagation and re-created under its name, 5 reconcile during which - right before the status write - the set is deleted (the cache sees it) and re-created (the cache does not yet)
}

func (c C15Case) Summary() interface{} {
	var pods []string
	for _, p := range c.Pods {
		pods = append(pods, fmt.Sprintf("%s phase=%s owners=%d term=%v", p.Name, p.Status.Phase, len(p.OwnerReferences), p.DeletionTimestamp != nil))
	}
	var revs []string
	for _, r := range c.Revs {
		revs = append(revs, fmt.Sprintf("%s rev=%d data=%s", r.Name, r.Revision, string(r.Data.Raw)))
	}
	return map[string]interface{}{"set": sim.DescribeSet(c.Set), "defaulted": c.Defaulted, "pods": pods, "revs": revs, "steps": c.Steps}
}

var weirdAnnValues = []string{"true", "True", "1", "", "false", "[1,2]", "[-1]", "[2147483647]", "[0,0,0]", "{", "null", "[null]", "[1.5]", "\"x\"", "[99999999999]"}

func genI32Ptr(rt *rapid.T, label string, vals []int32) *int32 {
	i := rapid.IntRange(-1, len(vals)-1).Draw(rt, label)
	if i < 0 {
		return nil
	}
	v := vals[i]
	return &v
}

func genC15Set(rt *rapid.T) *asv1.StatefulSet {
	name := rapid.SampledFrom([]string{"web", "web", "web-1", "a"}).Draw(rt, "name")
	r := int32(rapid.IntRange(0, 8).Draw(rt, "replicas"))
	lim := rapid.SampledFrom([]int32{0, 1, 2, 10, 2147483647}).Draw(rt, "limit")
	s := &asv1.StatefulSet{
		TypeMeta:   metav1.TypeMeta{Kind: "StatefulSet", APIVersion: "apps.pingcap.com/v1"},
		ObjectMeta: metav1.ObjectMeta{Name: name, Namespace: NS, UID: "set-uid", Generation: int64(rapid.IntRange(0, 3).Draw(rt, "gen"))},
	}
	s.Spec.Replicas = &r
	s.Spec.RevisionHistoryLimit = &lim
	s.Spec.ServiceName = rapid.SampledFrom([]string{"svc", ""}).Draw(rt, "svc")
	// selector
	switch rapid.IntRange(0, 7).Draw(rt, "selector") {
	case 7:
		// selects the pods but none of the set's own revisions (they carry the hash label)
		s.Spec.Selector = &metav1.LabelSelector{MatchLabels: map[string]string{"app": name},
			MatchExpressions: []metav1.LabelSelectorRequirement{{Key: "controller.kubernetes.io/hash", Operator: metav1.LabelSelectorOpDoesNotExist}}}
	case 0:
		s.Spec.Selector = &metav1.LabelSelector{}
	case 1:
		s.Spec.Selector = &metav1.LabelSelector{MatchExpressions: []metav1.LabelSelectorRequirement{{Key: "app", Operator: "Bogus", Values: []string{"x"}}}}
	case 2:
		s.Spec.Selector = &metav1.LabelSelector{MatchExpressions: []metav1.LabelSelectorRequirement{{Key: "app", Operator: metav1.LabelSelectorOpIn, Values: []string{name}}}}
	case 3:
		s.Spec.Selector = &metav1.LabelSelector{MatchLabels: map[string]string{"app": name, "x": "y"}}
	default:
		s.Spec.Selector = &metav1.LabelSelector{MatchLabels: map[string]string{"app": name}}
	}
	// template
	switch rapid.IntRange(0, 5).Draw(rt, "template") {
	case 0:
		// empty template
	case 1:
		s.Spec.Template = corev1.PodTemplateSpec{ObjectMeta: metav1.ObjectMeta{Labels: map[string]string{"other": "labels"}},
			Spec: corev1.PodSpec{Containers: []corev1.Container{{Name: "c", Image: "img:1"}}}}
	default:
		s.Spec.Template = corev1.PodTemplateSpec{ObjectMeta: metav1.ObjectMeta{Labels: map[string]string{"app": name}},
			Spec: corev1.PodSpec{Containers: []corev1.Container{{Name: "c", Image: tmplImage(rapid.IntRange(0, 2).Draw(rt, "img"))}}}}
	}
	// policy / strategy: any strings
	s.Spec.PodManagementPolicy = asv1.PodManagementPolicyType(rapid.SampledFrom([]string{"", "OrderedReady", "Parallel", "parallel", "Bogus"}).Draw(rt, "policy"))
	s.Spec.UpdateStrategy.Type = asv1.StatefulSetUpdateStrategyType(rapid.SampledFrom([]string{"", "RollingUpdate", "RollingUpdate", "OnDelete", "Recreate"}).Draw(rt, "strategy"))
	switch rapid.IntRange(0, 3).Draw(rt, "ruBlock") {
	case 0:
	case 1:
		s.Spec.UpdateStrategy.RollingUpdate = &asv1.RollingUpdateStatefulSetStrategy{}
	default:
		p := rapid.SampledFrom([]int32{-2147483648, -5, -1, 0, 1, 2, 3, 5, 10, 2147483647}).Draw(rt, "partition")
		s.Spec.UpdateStrategy.RollingUpdate = &asv1.RollingUpdateStatefulSetStrategy{Partition: &p}
	}
	// claim templates, possibly with empty / duplicate names
	nct := rapid.SampledFrom([]int{0, 0, 0, 1, 2}).Draw(rt, "nclaims")
	for i := 0; i < nct; i++ {
		ct := corev1.PersistentVolumeClaim{ObjectMeta: metav1.ObjectMeta{Name: rapid.SampledFrom([]string{"data", "data", "", "logs"}).Draw(rt, "claimName")}}
		if rapid.Bool().Draw(rt, "claimLabels") {
			ct.Labels = map[string]string{"k": "v"}
		}
		s.Spec.VolumeClaimTemplates = append(s.Spec.VolumeClaimTemplates, ct)
	}
	// annotations
	if rapid.Bool().Draw(rt, "hasAnn") {
		s.Annotations = map[string]string{}
		if rapid.Bool().Draw(rt, "slotsAnn") {
			s.Annotations["delete-slots"] = rapid.SampledFrom(weirdAnnValues).Draw(rt, "slotsVal")
		}
		if rapid.IntRange(0, 5).Draw(rt, "pauseAnn") == 0 {
			s.Annotations["paused-reconcile"] = rapid.SampledFrom(weirdAnnValues[:5]).Draw(rt, "pauseVal")
		}
	}
	if rapid.IntRange(0, 9).Draw(rt, "deleting") == 0 {
		ts := metav1.Unix(1600000000, 0)
		s.DeletionTimestamp = &ts
	}
	// status: anything that decodes
	cnt := []int32{-2147483648, -1, 0, 1, 3, 2147483647}
	st := &s.Status
	if rapid.Bool().Draw(rt, "hasStatus") {
		st.ObservedGeneration = int64(rapid.IntRange(-1, 5).Draw(rt, "obs"))
		st.Replicas = rapid.SampledFrom(cnt).Draw(rt, "stR")
		st.ReadyReplicas = rapid.SampledFrom(cnt).Draw(rt, "stReady")
		st.CurrentReplicas = rapid.SampledFrom(cnt).Draw(rt, "stCur")
		st.UpdatedReplicas = rapid.SampledFrom(cnt).Draw(rt, "stUpd")
		st.CurrentRevision = rapid.SampledFrom([]string{"", "web-nope", "rev-a", "rev-b"}).Draw(rt, "stCurRev")
		st.UpdateRevision = rapid.SampledFrom([]string{"", "web-nope", "rev-a", "rev-b"}).Draw(rt, "stUpdRev")
		st.CollisionCount = genI32Ptr(rt, "coll", []int32{-1, 0, 1, 2147483647})
	}
	return s
}

func genC15Pods(rt *rapid.T, set *asv1.StatefulSet) []*corev1.Pod {
	names := []string{}
	for i := 0; i <= 6; i++ {
		names = append(names, fmt.Sprintf("%s-%d", set.Name, i))
	}
	names = append(names, set.Name+"-01", set.Name+"-007", set.Name+"-2147483647", set.Name+"-2147483648", set.Name+"-99999999999999999999",
		set.Name+"-", set.Name, set.Name+"-x", "other-0", set.Name+"-1-0", set.Name+"--1", set.Name+"-00")
	n := rapid.IntRange(0, 7).Draw(rt, "npods")
	seen := map[string]bool{}
	var pods []*corev1.Pod
	tr := true
	for i := 0; i < n; i++ {
		var name string
		if rapid.IntRange(0, 3).Draw(rt, "wildName") == 0 {
			name = rapid.SampledFrom(names[7:]).Draw(rt, "podNameW")
		} else {
			name = rapid.SampledFrom(names[:7]).Draw(rt, "podName")
		}
		if seen[name] {
			continue
		}
		seen[name] = true
		p := &corev1.Pod{ObjectMeta: metav1.ObjectMeta{Name: name, Namespace: NS, UID: types.UID("pod-" + name)}}
		switch rapid.IntRange(0, 5).Draw(rt, "podLabels") {
		case 0:
			p.Labels = nil
		case 1:
			p.Labels = map[string]string{"other": "labels"}
		default:
			p.Labels = map[string]string{"app": set.Name, "x": "y"}
			if rapid.Bool().Draw(rt, "revLabel") {
				p.Labels["controller-revision-hash"] = rapid.SampledFrom([]string{"rev-a", "rev-b", "web-nope", ""}).Draw(rt, "podRev")
			}
			if rapid.Bool().Draw(rt, "idLabel") {
				p.Labels["statefulset.kubernetes.io/pod-name"] = name
			}
		}
		switch rapid.IntRange(0, 5).Draw(rt, "podOwner") {
		case 0:
		case 1:
			p.OwnerReferences = []metav1.OwnerReference{{APIVersion: "apps.pingcap.com/v1", Kind: "StatefulSet", Name: set.Name, UID: "other-uid", Controller: &tr}}
		case 2:
			p.OwnerReferences = []metav1.OwnerReference{{APIVersion: "apps/v1", Kind: "ReplicaSet", Name: "rs", UID: "rs-uid", Controller: &tr}}
		default:
			p.OwnerReferences = []metav1.OwnerReference{{APIVersion: "apps.pingcap.com/v1", Kind: "StatefulSet", Name: set.Name, UID: set.UID, Controller: &tr}}
		}
		p.Status.Phase = corev1.PodPhase(rapid.SampledFrom([]string{"Running", "Running", "Running", "Pending", "Failed", "Succeeded", "Unknown", ""}).Draw(rt, "phase"))
		if rapid.Bool().Draw(rt, "ready") {
			p.Status.Conditions = []corev1.PodCondition{{Type: corev1.PodReady, Status: corev1.ConditionTrue}}
		}
		if p.Status.Phase != "" {
			p.Spec.NodeName = "node"
		}
		if rapid.IntRange(0, 6).Draw(rt, "podTerm") == 0 {
			ts := metav1.Unix(1600000001, 0)
			p.DeletionTimestamp = &ts
		}
		if rapid.Bool().Draw(rt, "podContainers") {
			p.Spec.Containers = []corev1.Container{{Name: "c", Image: "img:1"}}
		}
		pods = append(pods, p)
	}
	return pods
}

var weirdRevData = []string{
	``, `{}`, `null`, `[]`, `"x"`, `1`, `{"spec":{}}`, `{"spec":null}`, `{"spec":{"template":null}}`, `{"spec":{"template":{"$patch":"replace"}}}`,
	`{"spec":{"template":{"$patch":"delete"}}}`, `{"spec":{"template":{"$patch":"bogus"}}}`, `{"$patch":"delete"}`, `{"$patch":"replace"}`,
	`{"spec":{"template":{"spec":{"containers":[{"name":"c","image":"img:9"}],"$patch":"replace"}}}}`,
	`{"spec":{"template":{"spec":{"containers":"notalist"}}}}`, `{"spec":{"template":{"spec":{"containers":[1,2]}}}}`,
	`{"spec":{"template":{"spec":{"containers":[{"$patch":"delete","name":"c"}]}}}}`, `{"spec":{"replicas":"x"}}`, `{"spec":{"replicas":null,"selector":null}}`,
	`{"spec":{"volumeClaimTemplates":[{"$patch":"delete"}]}}`, `{"spec":{"template":{"spec":{"$setElementOrder/containers":[{"name":"z"}]}}}}`,
	`{"spec":{"template":{"spec":{"$deleteFromPrimitiveList/finalizers":["a"]}}}}`, `{"metadata":{"name":"zzz"}}`, `{"spec":{"updateStrategy":{"rollingUpdate":{}}}}`,
	`{"spec":{"updateStrategy":{"rollingUpdate":{"partition":null}}}}`, `{"status":{"currentReplicas":-5}}`, `{"spec":{"template":{"$retainKeys":["spec"]}}}`,
}

func genC15Revs(rt *rapid.T, set *asv1.StatefulSet) []*appsv1.ControllerRevision {
	n := rapid.IntRange(0, 4).Draw(rt, "nrevs")
	var out []*appsv1.ControllerRevision
	seen := map[string]bool{}
	tr := true
	for i := 0; i < n; i++ {
		name := rapid.SampledFrom([]string{"rev-a", "rev-b", "web-nope", "rev-c"}).Draw(rt, "revName")
		if seen[name] {
			continue
		}
		seen[name] = true
		r := &appsv1.ControllerRevision{ObjectMeta: metav1.ObjectMeta{Name: name, Namespace: NS, UID: types.UID("uid-" + name)},
			Revision: int64(rapid.SampledFrom([]int{-1, 0, 1, 1, 2, 3, 1 << 40}).Draw(rt, "revNum"))}
		switch rapid.IntRange(0, 3).Draw(rt, "revLabels") {
		case 0:
			r.Labels = map[string]string{"apps.pingcap.com/upgrade-to-asts": set.Name}
		case 1:
			r.Labels = map[string]string{"app": set.Name, "x": "y", "apps.pingcap.com/upgrade-to-asts": set.Name}
		default:
			r.Labels = map[string]string{"app": set.Name, "x": "y"}
		}
		if rapid.Bool().Draw(rt, "hashLabel") {
			r.Labels["controller.kubernetes.io/hash"] = rapid.SampledFrom([]string{"123", "abc", "-1", "99999999999"}).Draw(rt, "hashVal")
		}
		switch rapid.IntRange(0, 3).Draw(rt, "revOwner") {
		case 0:
		case 1:
			r.OwnerReferences = []metav1.OwnerReference{{APIVersion: "apps/v1", Kind: "StatefulSet", Name: set.Name, UID: "builtin-uid", Controller: &tr}}
		default:
			r.OwnerReferences = []metav1.OwnerReference{{APIVersion: "apps.pingcap.com/v1", Kind: "StatefulSet", Name: set.Name, UID: set.UID, Controller: &tr}}
		}
		if rapid.IntRange(0, 2).Draw(rt, "legitData") == 0 {
			r.Data = runtime.RawExtension{Raw: []byte(`{"spec":{"template":{"$patch":"replace","metadata":{"creationTimestamp":null,"labels":{"app":"` + set.Name + `"}},"spec":{"containers":[{"image":"img:1","name":"c","resources":{}}]}}}}`)}
		} else {
			r.Data = runtime.RawExtension{Raw: []byte(rapid.SampledFrom(weirdRevData).Draw(rt, "revData"))}
		}
		out = append(out, r)
	}
	return out
}

func genC15(rt *rapid.T) C15Case {
	c := C15Case{Set: genC15Set(rt), Defaulted: rapid.Bool().Draw(rt, "defaulted")}
	c.Pods = genC15Pods(rt, c.Set)
	c.Revs = genC15Revs(rt, c.Set)
	n := rapid.IntRange(1, 8).Draw(rt, "nsteps")
	for i := 0; i < n; i++ {
		c.Steps = append(c.Steps, rapid.SampledFrom([]int{0, 0, 0, 0, 1, 1, 2, 3, 4, 5, 6, 6}).Draw(rt, "step"))
	}
	return c
}

func repoFrame(stack string) string {
	for _, ln := range strings.Split(stack, "\n") {
		if strings.Contains(ln, "/repo/") && !strings.Contains(ln, "zz_verif_hooks") {
			f := strings.TrimSpace(ln)
			if i := strings.Index(f, " +0x"); i > 0 {
				f = f[:i]
			}
			return strings.TrimPrefix(f, "/repo/")
		}
	}
	return "outside-repo"
}

func runC15(rep Rep, c C15Case) {
	set := c.Set.DeepCopy()
	if c.Defaulted {
		asv1.SetObjectDefaults_StatefulSet(set)
	}
	cl := sim.New()
	defer cl.Close()
	cl.Put(set)
	for _, p := range c.Pods {
		cl.Put(p)
	}
	for _, r := range c.Revs {
		cl.Put(r)
	}
	cl.RefreshAll()
	key := NS + "/" + set.Name
	for i, st := range c.Steps {
		switch st {
		case 0, 2, 5:
			cl.ListPerm = 0
			if st == 2 {
				cl.ListPerm = uint64(i + 7)
			}
			if st == 5 {
				flapped := false
				cl.Intercept = func(a *sim.Action) *sim.Fault {
					if flapped || a.Resource != "statefulsets" || a.Subresource != "status" || a.Verb != "update" {
						return nil
					}
					flapped = true
					if old := cl.Set(NS, set.Name); old != nil {
						cl.Remove(sim.GVRASts, NS, set.Name)
						cl.RefreshSet(NS, set.Name, false) // the informer has seen the deletion ...
						n := old.DeepCopy()
						n.UID, n.ResourceVersion, n.Generation = "", "", 1
						n.CreationTimestamp = metav1.Time{}
						n.Status = asv1.StatefulSetStatus{}
						cl.Put(n) // ... but not yet the object re-created under the same name
						rep.Label("set-flapped-before-status-write")
					}
					return nil
				}
			}
			r := cl.Reconcile(key)
			cl.Intercept = nil
			if r.Panic != nil {
				rep.Violate("panic@"+repoFrame(r.Stack), "reconcile panicked: %v\n%s\n%s", r.Panic, r.Transcript(), r.Stack)
			}
			cl.RefreshAll()
		case 1:
			for _, p := range cl.PodsIn(NS) {
				if p.DeletionTimestamp != nil {
					cl.Kubelet(NS, p.Name, sim.KFinalize)
				} else {
					cl.Kubelet(NS, p.Name, sim.KReady)
				}
			}
			cl.RefreshAll()
		case 3:
			cl.RefreshAll()
		case 6:
			if cur := cl.Set(NS, set.Name); cur != nil {
				cur.Status.CollisionCount = nil
				cl.Put(cur)
				cl.RefreshAll()
				rep.Label("status-rewritten-without-optional-field")
				if r := cl.Reconcile(key); r.Panic != nil {
					rep.Violate("panic@"+repoFrame(r.Stack), "reconcile panicked: %v\n%s\n%s", r.Panic, r.Transcript(), r.Stack)
				}
				cl.RefreshAll()
			}
		case 4:
			old := cl.Set(NS, set.Name)
			if old == nil {
				continue
			}
			strip := func(refs []metav1.OwnerReference) []metav1.OwnerReference {
				var out []metav1.OwnerReference
				for _, r := range refs {
					if r.UID != old.UID {
						out = append(out, r)
					}
				}
				return out
			}
			for _, p := range cl.PodsIn(NS) {
				if len(strip(p.OwnerReferences)) != len(p.OwnerReferences) {
					p.OwnerReferences = strip(p.OwnerReferences)
					cl.Put(p)
				}
			}
			for _, r := range cl.Revs() {
				if len(strip(r.OwnerReferences)) != len(r.OwnerReferences) {
					r.OwnerReferences = strip(r.OwnerReferences)
					cl.Put(r)
				}
			}
			cl.Remove(sim.GVRASts, NS, set.Name)
			n := old.DeepCopy()
			n.UID, n.ResourceVersion, n.Generation = "", "", 1
			n.CreationTimestamp = metav1.Time{}
			n.DeletionTimestamp = nil
			n.Status = asv1.StatefulSetStatus{}
			cl.Put(n)
			cl.RefreshAll()
			rep.Label("set-orphan-deleted-and-recreated")
		}
	}
	rep.FP(worldFPAny(c))
	nontrivial := false
	dflt := c.Set.DeepCopy()
	asv1.SetObjectDefaults_StatefulSet(dflt)
	if fmt.Sprintf("%v|%v|%v", dflt.Spec.PodManagementPolicy, dflt.Spec.UpdateStrategy.Type, sim.DescribeSet(dflt)) !=
		fmt.Sprintf("%v|%v|%v", c.Set.Spec.PodManagementPolicy, c.Set.Spec.UpdateStrategy.Type, sim.DescribeSet(c.Set)) {
		nontrivial = true
		rep.Label("differs-from-defaulted-form")
	}
	if v, ok := c.Set.Annotations["delete-slots"]; ok && !strings.HasPrefix(v, "[") || ok && strings.ContainsAny(v, "n.\"-") {
		nontrivial = true
		rep.Label("malformed-or-negative-slots-annotation")
	}
	if ru := c.Set.Spec.UpdateStrategy.RollingUpdate; ru != nil && ru.Partition == nil {
		rep.Label("rollingUpdate-block-without-partition")
	}
	if ru := c.Set.Spec.UpdateStrategy.RollingUpdate; ru != nil && ru.Partition != nil && *ru.Partition < 0 {
		rep.Label("negative-partition")
	}
	if nontrivial {
		rep.Nontrivial()
	}
}

func TestC15(t *testing.T)        { checkCases(t, "C15", genC15, runC15) }
func TestRegressC15(t *testing.T) { regress(t, "C15", runC15) }

// FuzzC15: the same property under Go's native coverage-guided fuzzer (thorough tier).
func FuzzC15(f *testing.F) {
	r := rec("C15")
	f.Fuzz(rapid.MakeFuzz(func(rt *rapid.T) {
		h := &H{T: rt, base: base{id: "C15", r: r}}
		defer h.finish()
		c := genC15(rt)
		h.caseVal = c
		runC15(h, c)
	}))
}
