package props

import (
	"bytes"
	"fmt"
	"strings"
	"testing"

	appsv1 "k8s.io/api/apps/v1"
	corev1 "k8s.io/api/core/v1"
	apiequality "k8s.io/apimachinery/pkg/api/equality"
	"k8s.io/apimachinery/pkg/api/meta"
	metav1 "k8s.io/apimachinery/pkg/apis/meta/v1"
	"k8s.io/apimachinery/pkg/labels"
	"k8s.io/apimachinery/pkg/types"
	"pgregory.net/rapid"

	asv1 "github.com/pingcap/advanced-statefulset/client/apis/apps/v1"

	"verifharness/model"
	"verifharness/sim"
)

// C10 — the controller touches only what it owns; adoption needs a fresh confirmation.

type XPod struct {
	Shape int  `json:"shape"` // 0 S-<ord>, 1 S-0<ord>, 2 S-x, 3 other-<ord>, 4 S-<ord>-0
	Ord   int  `json:"ord"`
	Owner int  `json:"owner"` // 0 this set, 1 none, 2 same name other UID, 3 other kind, 4 the second set
	Match bool `json:"match"`
	Term  bool `json:"term,omitempty"`
	Phase int  `json:"phase"`
}

type XRev struct {
	Owner  int   `json:"owner"`  // 0 this set, 1 none, 2 same name other UID, 3 other kind, 4 the second set
	Labels int   `json:"labels"` // 0 selector labels, 1 upgrade marker, 2 both, 3 neither
	Equal  bool  `json:"equal"`  // data equal to the set's current template revision
	Rev    int64 `json:"rev"`
}

type C10Case struct {
	W     World  `json:"world"`
	XPods []XPod `json:"xpods,omitempty"`
	XRevs []XRev `json:"xrevs,omitempty"`
	Other bool   `json:"other_set,omitempty"` // a second set with the same selector exists
	// the second set is itself reconciled (by the same controller) before the ops listed in OtherAt
	OtherReplicas int   `json:"other_replicas,omitempty"`
	OtherAt       []int `json:"other_at,omitempty"`
	// Twin: a set with the SAME name lives in another namespace (ns2) with pods of the same names, and is
	// reconciled by the same controller before the ops listed in TwinAt; nothing may cross the namespace border
	Twin         bool  `json:"twin,omitempty"`
	TwinReplicas int   `json:"twin_replicas,omitempty"`
	TwinAt       []int `json:"twin_at,omitempty"`
}

func (c C10Case) Summary() interface{} {
	return map[string]interface{}{"world": summarizeWorld(c.W), "extra_pods": c.XPods, "extra_revs": c.XRevs, "second_set": c.Other,
		"second_set_replicas": c.OtherReplicas, "second_set_reconciled_before_ops": c.OtherAt,
		"same_name_in_other_namespace": c.Twin, "twin_replicas": c.TwinReplicas, "twin_reconciled_before_ops": c.TwinAt}
}

func ownerRefKind(kind int, set *asv1.StatefulSet) []metav1.OwnerReference {
	t := true
	switch kind {
	case 0:
		return []metav1.OwnerReference{ownerRefTo(set)}
	case 2:
		return []metav1.OwnerReference{{APIVersion: "apps.pingcap.com/v1", Kind: "StatefulSet", Name: set.Name, UID: "stale-uid", Controller: &t, BlockOwnerDeletion: &t}}
	case 3:
		return []metav1.OwnerReference{{APIVersion: "apps/v1", Kind: "ReplicaSet", Name: "rs", UID: "rs-uid", Controller: &t, BlockOwnerDeletion: &t}}
	case 4:
		return []metav1.OwnerReference{{APIVersion: "apps.pingcap.com/v1", Kind: "StatefulSet", Name: "zz-other", UID: "other-set-uid", Controller: &t, BlockOwnerDeletion: &t}}
	}
	return nil
}

func genC10(rt *rapid.T) C10Case {
	o := histOpts
	o.maxOps = 25
	w := opWeights{}
	for k, v := range defaultWeights {
		w[k] = v
	}
	w[OpMarkDeleting] = 1
	w[OpSetRecreate] = 1
	w[OpSetRemove] = 1
	w[OpEditLimit] = 1
	w[OpPodSwapped] = 1
	o.weights = w
	c := C10Case{W: genWorld(rt, o), Other: rapid.Bool().Draw(rt, "otherSet")}
	if rapid.IntRange(0, 7).Draw(rt, "recreatedTwice") == 0 {
		// the name is re-used twice in a row, each incarnation reconciled while still at generation 1; the second
		// one may select differently
		c.W.FreshController = true
		c.W.Ops = append(c.W.Ops, Op{K: OpSetRecreate, A: 1}, Op{K: OpReconcile}, Op{K: OpSetRecreate, A: rapid.SampledFrom([]int{0, 0, 1}).Draw(rt, "rcSel"), B: rapid.IntRange(0, 1).Draw(rt, "rcEra")},
			Op{K: OpReconcile}, Op{K: OpKubelet, A: rapid.IntRange(0, 20).Draw(rt, "rcK"), B: 0}, Op{K: OpReconcile})
	}
	if c.Other && rapid.IntRange(0, 2).Draw(rt, "otherLive") != 0 {
		c.OtherReplicas = rapid.IntRange(0, 3).Draw(rt, "otherReplicas")
		n := rapid.IntRange(1, 4).Draw(rt, "otherN")
		for i := 0; i < n; i++ {
			c.OtherAt = append(c.OtherAt, rapid.IntRange(0, len(c.W.Ops)).Draw(rt, "otherAt"))
		}
	}
	// the confirming read before an adoption is a call like any other: a sixth of the otherwise unfaulted reconciles
	// have it fail transiently (the adoptions of that pass must then not happen)
	for i := range c.W.Ops {
		if op := &c.W.Ops[i]; op.K == OpReconcile && op.FaultAt == 0 && op.InterAt == 0 && rapid.IntRange(0, 5).Draw(rt, "getFault") == 0 {
			op.FaultAt = -5
			op.Fault = rapid.SampledFrom([]int{FServerError, FTimeoutLost}).Draw(rt, "getFaultKind")
		}
	}
	if rapid.IntRange(0, 3).Draw(rt, "twin") == 0 {
		c.Twin = true
		c.TwinReplicas = rapid.IntRange(0, 4).Draw(rt, "twinReplicas")
		n := rapid.IntRange(1, 4).Draw(rt, "twinN")
		for i := 0; i < n; i++ {
			c.TwinAt = append(c.TwinAt, rapid.IntRange(0, len(c.W.Ops)).Draw(rt, "twinAt"))
		}
	}
	np := rapid.IntRange(0, 5).Draw(rt, "nxpods")
	for i := 0; i < np; i++ {
		c.XPods = append(c.XPods, XPod{
			Shape: rapid.SampledFrom([]int{0, 0, 0, 0, 1, 2, 3, 4}).Draw(rt, "shape"),
			Ord:   rapid.IntRange(0, 8).Draw(rt, "xord"),
			Owner: rapid.IntRange(0, 4).Draw(rt, "xowner"),
			Match: rapid.IntRange(0, 3).Draw(rt, "xmatch") != 0,
			Term:  rapid.IntRange(0, 5).Draw(rt, "xterm") == 0,
			Phase: rapid.SampledFrom([]int{3, 3, 3, 2, 1, 4}).Draw(rt, "xphase"),
		})
	}
	nr := rapid.IntRange(0, 3).Draw(rt, "nxrevs")
	for i := 0; i < nr; i++ {
		c.XRevs = append(c.XRevs, XRev{
			Owner:  rapid.IntRange(0, 4).Draw(rt, "rowner"),
			Labels: rapid.IntRange(0, 3).Draw(rt, "rlabels"),
			Equal:  rapid.Bool().Draw(rt, "requal"),
			Rev:    int64(rapid.IntRange(0, 9).Draw(rt, "rrev")),
		})
	}
	return c
}

func applyExtras(s *Sys, c C10Case) {
	set := s.Set()
	if c.Other {
		o := baseSet(NS, "zz-other", int32(c.OtherReplicas))
		o.UID = "other-set-uid"
		o.Spec.Selector = set.Spec.Selector.DeepCopy()
		o.Spec.Template.Labels = map[string]string{"app": set.Name}
		s.C.Put(o)
	}
	if c.Twin {
		t := baseSet(NS2, set.Name, int32(c.TwinReplicas))
		t.UID = "twin-uid"
		t.Spec.Selector = set.Spec.Selector.DeepCopy()
		t.Spec.Template = *set.Spec.Template.DeepCopy()
		t = s.C.Put(t).(*asv1.StatefulSet)
		img := t.Spec.Template.Spec.Containers[0].Image
		// two of its own pods, one orphan it may adopt, one pod of the OTHER namespace's set by reference only in name
		for ord := 0; ord < 3; ord++ {
			p := mkPod(t, ord, "", img, 3, false)
			p.UID = types.UID(fmt.Sprintf("twinpod-%d", ord))
			if ord == 2 {
				p.OwnerReferences = nil
			}
			s.C.Put(p)
		}
	}
	for i, x := range c.XPods {
		var name string
		switch x.Shape {
		case 0:
			name = fmt.Sprintf("%s-%d", set.Name, x.Ord)
		case 1:
			name = fmt.Sprintf("%s-0%d", set.Name, x.Ord)
		case 2:
			name = set.Name + "-x"
		case 3:
			name = fmt.Sprintf("other-%d", x.Ord)
		case 4:
			name = fmt.Sprintf("%s-%d-0", set.Name, x.Ord)
		}
		if s.C.Pod(NS, name) != nil {
			continue
		}
		p := mkPod(set, x.Ord, s.RevOf[s.W.Hist[len(s.W.Hist)-1]], set.Spec.Template.Spec.Containers[0].Image, x.Phase, x.Term)
		p.Name = name
		p.Labels["statefulset.kubernetes.io/pod-name"] = name
		p.Spec.Hostname = name
		if !x.Match {
			p.Labels["app"] = "somethingelse"
		}
		p.OwnerReferences = ownerRefKind(x.Owner, set)
		p.UID = types.UID(fmt.Sprintf("xpod-%d", i))
		s.C.Put(p)
	}
	cur := s.C.Rev(NS, s.RevOf[s.W.Hist[len(s.W.Hist)-1]])
	for i, x := range c.XRevs {
		r := &appsv1.ControllerRevision{ObjectMeta: metav1.ObjectMeta{Name: fmt.Sprintf("xrev-%d", i), Namespace: NS, UID: types.UID(fmt.Sprintf("xrev-uid-%d", i)), Labels: map[string]string{}}, Revision: x.Rev}
		if x.Labels == 0 || x.Labels == 2 {
			r.Labels["app"] = set.Name
		}
		if x.Labels == 1 || x.Labels == 2 {
			r.Labels["apps.pingcap.com/upgrade-to-asts"] = set.Name
		}
		if x.Equal && cur != nil {
			r.Data = *cur.Data.DeepCopy()
		} else {
			r.Data.Raw = bytes.Replace(append([]byte(nil), cur.Data.Raw...), []byte(`"image":"img:`), []byte(`"image":"ximg:`), 1)
		}
		r.OwnerReferences = ownerRefKind(x.Owner, set)
		s.C.Put(r)
	}
	s.C.RefreshAll()
}

// monC10 judges every write of one reconcile.
func monC10(rep Rep, v *View, cacheBefore []sim.CachedObj) (interesting bool) {
	uid := string(v.Set.UID)
	sawFreshGet := false
	// pods named S-<digits> with a non-canonical number (web-01, web-00, web-99999999999) are ambiguous
	// under "its name is S-<ordinal>": nothing is asserted about them or about counts that include them
	ownedOdd := len(v.Odd) > 0
	creates, replaces := 0, 0
	for _, pa := range v.PodActs() {
		if pa.Create && pa.A.Err == nil {
			creates++
		}
		if !pa.Create && pa.Class == "replace" && pa.A.Err == nil {
			replaces++
		}
	}
	for _, a := range v.Rec.Actions {
		if a.Resource == "statefulsets" && a.GVR.Group == "apps.pingcap.com" && a.Verb == "get" && a.Err == nil {
			if s, ok := a.Result.(*asv1.StatefulSet); ok && s.UID == v.Set.UID && s.DeletionTimestamp == nil {
				sawFreshGet = true
			}
		}
		if !a.IsWrite() {
			continue
		}
		switch a.Resource {
		case "statefulsets":
			if a.GVR.Group != "apps.pingcap.com" {
				rep.Violate("set/builtin-statefulset-written", "%s%s", a, ctx(v))
			}
			if a.Verb != "update" || a.Subresource != "status" {
				rep.Violate("set/written-outside-status", "the set was written by %s%s", a, ctx(v))
			}
			obj, _ := a.Obj.(*asv1.StatefulSet)
			if obj == nil {
				continue
			}
			if !ownedOdd && a.Err == nil {
				want := len(v.Claimed) + creates - replaces
				if int(obj.Status.Replicas) != want {
					rep.Violate("status/replicas-counts-non-members", "status.replicas=%d but the snapshot has %d member pods (+%d created, -%d replaced)%s", obj.Status.Replicas, len(v.Claimed), creates, replaces, ctx(v))
				}
			}
		case "pods":
			snap := v.ByName[a.Name]
			before, _ := a.Before.(*corev1.Pod)
			// identity "repair" of a non-canonically named pod renames it to S-<n> and (on a conflict retry) re-reads
			// whatever pod carries that name: with such pods in the snapshot, pod updates are not judged
			fromOdd := a.Verb == "update" && len(v.Odd) > 0
			if sent, ok := a.Obj.(*corev1.Pod); ok && a.Verb == "update" {
				for _, o := range v.Odd {
					if o.UID == sent.UID {
						fromOdd = true // identity "repair" of a non-canonically named pod: not judged
					}
				}
			}
			if a.Verb != "create" && !fromOdd {
				for i, tgt := range []*corev1.Pod{snap, before} {
					if tgt == nil {
						continue
					}
					if i == 1 && a.Err != nil {
						// judged on the stored object only when the write took effect: an attempt that the
						// API server rejects (e.g. a second controller reference) changes nothing
						continue
					}
					if c := controllerOf(tgt.OwnerReferences); c != nil && string(c.UID) != uid {
						rep.Violate("foreign/pod-"+a.Verb, "%s targets pod %s controlled by %s/%s (%s)%s", a, a.Name, c.Kind, c.Name, c.UID, ctx(v))
					}
				}
			}
			switch {
			case a.Verb == "patch" && isReleasePatch(a):
				interesting = true
				if snap == nil || v.Releasable[a.Name] == nil {
					if _, odd := v.Odd[a.Name]; !odd {
						rep.Violate("release/not-releasable", "released %s which is not a pod controlled by the set that stopped matching%s", a.Name, ctx(v))
					}
				}
				if snap != nil {
					want := fmt.Sprintf(`{"metadata":{"uid":"%s","ownerReferences":[{"$patch":"delete","uid":"%s"}]}}`, snap.UID, uid)
					if string(a.Patch) != want {
						rep.Violate("release/patch-removes-more-than-own-reference", "release patch %s, expected %s%s", a.Patch, want, ctx(v))
					}
				}
				if v.Deleting {
					rep.Violate("release/by-deleting-set", "a set with a deletion timestamp released %s%s", a.Name, ctx(v))
				}
			case a.Verb == "patch" && isAdoptPatch(a, uid):
				interesting = true
				if v.Adoptable[a.Name] == nil {
					why := "not in the snapshot"
					if snap != nil {
						switch {
						case controllerOf(snap.OwnerReferences) != nil:
							why = "already has a controller"
						case snap.DeletionTimestamp != nil:
							why = "is terminating"
						case !v.Selector.Matches(labelsOf(snap)):
							why = "labels do not match the selector"
						default:
							why = "name is not " + v.Name + "-<ordinal>"
						}
					}
					if _, odd := v.Odd[a.Name]; !odd {
						rep.Violate("adopt/not-adoptable", "adopted %s which %s%s", a.Name, why, ctx(v))
					}
				}
				if !sawFreshGet {
					rep.Violate("adopt/without-fresh-confirmation", "adopted %s without a preceding uncached read confirming the set (same UID, not deleting)%s", a.Name, ctx(v))
				}
				if v.Deleting {
					rep.Violate("adopt/by-deleting-set", "a set with a deletion timestamp adopted %s%s", a.Name, ctx(v))
				}
			case a.Verb == "patch":
				rep.Violate("pod/unexpected-patch", "%s%s", a, ctx(v))
			case a.Verb == "delete":
				if _, odd := v.Odd[a.Name]; odd {
					break
				}
				if ord, ok := model.Canonical(v.Name, a.Name); !ok || v.Claimed[ord] == nil || v.Claimed[ord].Name != a.Name {
					created := false
					for _, b := range v.Rec.Actions {
						if b == a {
							break
						}
						if b.Resource == "pods" && b.Verb == "create" && b.Name == a.Name && b.Err == nil {
							created = true
						}
					}
					if !created {
						rep.Violate("delete/non-member", "deleted %s which is not a member pod of the snapshot%s", a.Name, ctx(v))
					}
				}
			}
		case "controllerrevisions":
			if before, ok := a.Before.(*appsv1.ControllerRevision); ok && a.Verb != "create" {
				marked := before.Labels["apps.pingcap.com/upgrade-to-asts"] == v.Name
				if c := controllerOf(before.OwnerReferences); c != nil && string(c.UID) != uid && !marked {
					interesting = true
					rep.Violate("foreign/revision-"+a.Verb, "%s targets revision %s controlled by %s/%s (%s)%s", a, a.Name, c.Kind, c.Name, c.UID, ctx(v))
				}
				if a.Verb == "patch" && controllerOf(before.OwnerReferences) == nil && !sawFreshGet {
					rep.Violate("adopt/revision-without-fresh-confirmation", "adopted revision %s without a preceding uncached read confirming the set%s", a.Name, ctx(v))
				}
			}
		}
	}
	for _, co := range cacheBefore {
		if !apiequality.Semantic.DeepEqual(co.Obj, co.Copy) {
			rep.Violate("cache/object-mutated", "an object read from a cache was modified by the reconcile: before %v after %v%s", co.Copy, co.Obj, ctx(v))
		}
	}
	// "pods controlled by S that stop matching are released": a reconcile of a live, unpaused set that got as far
	// as listing pods and met no failure has asked for the release of every such pod it saw
	if v.Rec.ListedPods && v.Rec.Err == nil && !v.APIFailure() && !v.Deleting && !v.Paused {
		released := map[string]bool{}
		for _, a := range v.Rec.Actions {
			if a.Resource == "pods" && isReleasePatch(a) {
				released[a.Name] = true
			}
		}
		for name := range v.Releasable {
			if !released[name] {
				rep.Violate("release/not-released", "pod %s is controlled by the set but does not match it (name or labels), and the reconcile did not release it%s", name, ctx(v))
			}
		}
	}
	if len(v.Foreign) > 0 || len(v.Releasable) > 0 || len(v.Adoptable) > 0 {
		for _, a := range v.Rec.Actions {
			if a.IsWrite() {
				interesting = true
			}
		}
	}
	return
}

// monOther judges a reconcile of the SECOND set (same selector, other name and UID): whatever it
// writes must be its own - pods named zz-other-<ordinal> that it controls or may adopt, revisions it
// controls or that nobody controls, its own status.
func monOther(rep Rep, r *sim.Record, cacheBefore []sim.CachedObj) (wrote bool) {
	const name, uid = "zz-other", "other-set-uid"
	if r.Panic != nil {
		rep.Violate("panic", "reconcile of the second set panicked: %v\n%s", r.Panic, r.Stack)
	}
	tr := func() string { return "\n[reconcile of the second set]\n" + r.Transcript() }
	for _, a := range r.Actions {
		if !a.IsWrite() {
			continue
		}
		wrote = true
		switch a.Resource {
		case "statefulsets":
			if a.Name != name || a.Verb != "update" || a.Subresource != "status" || a.GVR.Group != "apps.pingcap.com" {
				rep.Violate("second-set/wrote-a-set", "%s%s", a, tr())
			}
		case "pods":
			if a.Verb == "create" {
				if _, ok := model.Canonical(name, a.Name); !ok {
					if p, _ := a.Obj.(*corev1.Pod); p == nil || !okName(name, p.Name) {
						rep.Violate("second-set/created-foreign-name", "%s%s", a, tr())
					}
				}
				continue
			}
			before, _ := a.Before.(*corev1.Pod)
			if before == nil {
				continue // target vanished or never existed: nothing was touched
			}
			c := controllerOf(before.OwnerReferences)
			switch {
			case c != nil && string(c.UID) == uid:
				// its own pod: may be released, updated or deleted
			case c != nil:
				rep.Violate("second-set/foreign-pod-"+a.Verb, "%s targets pod %s controlled by %s/%s (%s)%s", a, a.Name, c.Kind, c.Name, c.UID, tr())
			default:
				if _, ok := model.Canonical(name, a.Name); !ok || !isAdoptPatch(a, uid) || before.DeletionTimestamp != nil {
					rep.Violate("second-set/orphan-pod-"+a.Verb, "%s targets the unowned pod %s, which is not an adoptable %s-<ordinal>%s", a, a.Name, name, tr())
				}
			}
		case "controllerrevisions":
			before, _ := a.Before.(*appsv1.ControllerRevision)
			if before == nil || a.Verb == "create" {
				continue
			}
			if c := controllerOf(before.OwnerReferences); c != nil && string(c.UID) != uid {
				rep.Violate("second-set/foreign-revision-"+a.Verb, "%s targets revision %s controlled by %s/%s (%s)%s", a, a.Name, c.Kind, c.Name, c.UID, tr())
			}
		case "persistentvolumeclaims":
			if a.Verb != "create" {
				rep.Violate("second-set/claim-"+a.Verb, "%s%s", a, tr())
			}
		}
	}
	for _, co := range cacheBefore {
		if !apiequality.Semantic.DeepEqual(co.Obj, co.Copy) {
			rep.Violate("cache/object-mutated", "an object read from a cache was modified by the reconcile of the second set: before %v after %v%s", co.Copy, co.Obj, tr())
		}
	}
	return
}

const NS2 = "ns2"

// monNamespace: every API call of a reconcile of ns/name stays inside that namespace.
func monNamespace(rep Rep, r *sim.Record, ns string) (wrote bool) {
	if r.Panic != nil {
		rep.Violate("panic", "reconcile panicked: %v\n%s", r.Panic, r.Stack)
	}
	for _, a := range r.Actions {
		if a.IsWrite() {
			wrote = true
		}
		if a.Namespace != ns && (a.IsWrite() || a.Verb == "get") {
			rep.Violate("namespace/crossed", "a reconcile of a set in namespace %q issued %s in namespace %q\n%s", ns, a, a.Namespace, r.Transcript())
		}
		if a.IsWrite() && a.Verb != "create" {
			if m, err := meta.Accessor(a.Before); err == nil && a.Before != nil && m.GetNamespace() != ns {
				rep.Violate("namespace/crossed", "a reconcile of a set in namespace %q wrote %s, an object of namespace %q\n%s", ns, a, m.GetNamespace(), r.Transcript())
			}
		}
	}
	return
}

func okName(set, pod string) bool {
	_, ok := model.Canonical(set, pod)
	return ok
}

func labelsOf(p *corev1.Pod) labels.Set { return labels.Set(p.Labels) }

func runC10(rep Rep, c C10Case) {
	w := c.W
	s := BuildWorld(rep, &w)
	defer s.Close()
	applyExtras(s, c)
	nt := false
	var cacheBefore []sim.CachedObj
	s.OnRecord = func(r *sim.Record, op *Op) {
		if r.Panic != nil {
			rep.Violate("panic", "reconcile panicked: %v\n%s", r.Panic, r.Stack)
		}
		if c.Twin {
			monNamespace(rep, r, NS)
		}
		if v := NewView(r); v != nil {
			if monC10(rep, v, cacheBefore) {
				nt = true
			}
		}
	}
	otherAt := map[int]bool{}
	for _, i := range c.OtherAt {
		otherAt[i] = true
	}
	reconcileOther := func() {
		if !c.Other || s.C.Set(NS, "zz-other") == nil {
			return
		}
		if w.EventMode {
			s.SyncCachesNotify()
		} else {
			s.C.RefreshAll()
		}
		cb := s.C.CacheSnapshot()
		r := s.C.Reconcile(NS + "/zz-other")
		s.Trace = append(s.Trace, func() string { return "[second set] " + strings.TrimRight(r.Transcript(), "\n") })
		if monOther(rep, r, cb) {
			nt = true
			rep.Label("second-set-reconcile-wrote")
		}
	}
	twinAt := map[int]bool{}
	for _, i := range c.TwinAt {
		twinAt[i] = true
	}
	reconcileTwin := func() {
		if !c.Twin || s.C.Set(NS2, s.Name) == nil {
			return
		}
		if w.EventMode {
			s.SyncCachesNotify()
		} else {
			s.C.RefreshAll()
		}
		before := map[string]string{}
		for _, p := range s.C.PodsIn(NS) {
			before[p.Name] = p.ResourceVersion
		}
		cb := s.C.CacheSnapshot()
		r := s.C.Reconcile(NS2 + "/" + s.Name)
		s.Trace = append(s.Trace, func() string { return "[twin in ns2] " + strings.TrimRight(r.Transcript(), "\n") })
		if monNamespace(rep, r, NS2) {
			nt = true
			rep.Label("twin-namespace-reconcile-wrote")
		}
		after := map[string]string{}
		for _, p := range s.C.PodsIn(NS) {
			after[p.Name] = p.ResourceVersion
		}
		if fmt.Sprint(before) != fmt.Sprint(after) {
			rep.Violate("namespace/crossed", "reconciling %s/%s changed pods of namespace %s: %v -> %v\n%s", NS2, s.Name, NS, before, after, r.Transcript())
		}
		for _, co := range cb {
			if !apiequality.Semantic.DeepEqual(co.Obj, co.Copy) {
				rep.Violate("cache/object-mutated", "an object read from a cache was modified by the reconcile of the twin set: before %v after %v\n%s", co.Copy, co.Obj, r.Transcript())
			}
		}
	}
	for i := range w.Ops {
		if otherAt[i] {
			reconcileOther()
		}
		if twinAt[i] {
			reconcileTwin()
		}
		cacheBefore = nil
		if w.Ops[i].K == OpReconcile && w.Ops[i].InterAt == 0 {
			// snapshot after the op's own refresh is applied: done inside by refreshing here first
			op := w.Ops[i]
			switch op.Refresh {
			case 0:
				s.C.RefreshAll()
			case 2:
				s.C.RefreshPods()
				s.C.RefreshPVCs()
			case 3:
				s.C.RefreshSet(NS, s.Name, false)
			}
			op.Refresh = 1
			cacheBefore = s.C.CacheSnapshot()
			s.Run(&op)
			continue
		}
		s.Run(&w.Ops[i])
	}
	if otherAt[len(w.Ops)] {
		reconcileOther()
	}
	if twinAt[len(w.Ops)] {
		reconcileTwin()
	}
	rep.FP(worldFPAny(c))
	if nt {
		rep.Nontrivial()
	}
}

func TestC10(t *testing.T)        { checkCases(t, "C10", genC10, runC10) }
func TestRegressC10(t *testing.T) { regress(t, "C10", runC10) }
