package props

import (
	"bytes"
	"context"
	"encoding/json"
	"fmt"
	"hash/fnv"
	"reflect"
	"strconv"
	"testing"

	appsv1 "k8s.io/api/apps/v1"
	corev1 "k8s.io/api/core/v1"
	metav1 "k8s.io/apimachinery/pkg/apis/meta/v1"
	"k8s.io/apimachinery/pkg/runtime"
	"k8s.io/apimachinery/pkg/util/rand"
	clientgoscheme "k8s.io/client-go/kubernetes/scheme"
	"pgregory.net/rapid"

	asv1 "github.com/pingcap/advanced-statefulset/client/apis/apps/v1"
	"github.com/pingcap/advanced-statefulset/client/apis/apps/v1/helper"
	"github.com/pingcap/advanced-statefulset/pkg/controller/statefulset"

	"verifharness/model"
	"verifharness/sim"
)

// C18 — migration keeps pods running: revision identity equals the built-in controller's.

// builtinPatch is the reference encoder: what kube-controller-manager's StatefulSet controller
// records as revision data (pkg/controller/statefulset getPatch), rebuilt on client-go's scheme
// codec for apps/v1. It does not share code with the repository under test.
var builtinCodec = clientgoscheme.Codecs.LegacyCodec(appsv1.SchemeGroupVersion)

func builtinPatch(set *appsv1.StatefulSet) ([]byte, error) {
	data, err := runtime.Encode(builtinCodec, set)
	if err != nil {
		return nil, err
	}
	var raw map[string]interface{}
	if err := json.Unmarshal(data, &raw); err != nil {
		return nil, err
	}
	spec := raw["spec"].(map[string]interface{})
	template := spec["template"].(map[string]interface{})
	template["$patch"] = "replace"
	return json.Marshal(map[string]interface{}{"spec": map[string]interface{}{"template": template}})
}

// builtinRevisionName: upstream's history.ControllerRevisionName(parent, HashControllerRevision(data, collisionCount)).
func builtinRevisionHash(data []byte, collisionCount *int32) string {
	hf := fnv.New32()
	if len(data) > 0 {
		hf.Write(data)
	}
	if collisionCount != nil {
		hf.Write([]byte(strconv.FormatInt(int64(*collisionCount), 10)))
	}
	return rand.SafeEncodeString(fmt.Sprint(hf.Sum32()))
}

// ---- (a) encoder differential over the whole PodTemplateSpec schema -----------------------------

func fullTemplateCfg() rapid.MakeConfig {
	cfg := makeCfg()
	big := rapid.OneOf(rapid.Int64(), rapid.SampledFrom([]int64{0, 1, 30, 1 << 31, 1<<53 - 1, 1 << 53, 1<<53 + 1, 1<<62 + 12345, -1, 9223372036854775807}), rapid.Int64Range(0, 100000))
	cfg.Kinds[reflect.Int64] = anyGen(big)
	return cfg
}

var genFullTemplate = rapid.MakeCustom[corev1.PodTemplateSpec](fullTemplateCfg())

type C18EncCase struct {
	Template corev1.PodTemplateSpec `json:"template"`
}

func (c C18EncCase) Summary() interface{} {
	j, _ := json.Marshal(c.Template)
	if len(j) > 1500 {
		j = append(j[:1500], []byte("…")...)
	}
	n, _ := populated(reflect.ValueOf(c.Template), 0)
	return map[string]interface{}{"template_json_prefix": string(j), "populated_fields": n}
}

func genC18Enc(rt *rapid.T) C18EncCase {
	t := genFullTemplate.Draw(rt, "template")
	if rapid.IntRange(0, 3).Draw(rt, "graceExtreme") == 0 {
		v := rapid.SampledFrom([]int64{1<<53 + 1, 1<<53 - 1, 1<<60 + 7, 9007199254740993, 30}).Draw(rt, "grace")
		t.Spec.TerminationGracePeriodSeconds = &v
	}
	return C18EncCase{Template: t}
}

func c18Builtin(t corev1.PodTemplateSpec) *appsv1.StatefulSet {
	r := int32(3)
	return &appsv1.StatefulSet{
		TypeMeta:   metav1.TypeMeta{Kind: "StatefulSet", APIVersion: "apps/v1"},
		ObjectMeta: metav1.ObjectMeta{Name: "web", Namespace: NS},
		Spec: appsv1.StatefulSetSpec{Replicas: &r, ServiceName: "svc", Selector: &metav1.LabelSelector{MatchLabels: map[string]string{"app": "web"}},
			Template: *t.DeepCopy(), UpdateStrategy: appsv1.StatefulSetUpdateStrategy{Type: appsv1.RollingUpdateStatefulSetStrategyType}},
	}
}

func runC18Enc(rep Rep, c C18EncCase) {
	b := c18Builtin(c.Template)
	want, err := builtinPatch(b)
	if err != nil {
		rep.Exclude("reference encoder rejects the template")
	}
	as, err := helper.FromBuiltinStatefulSet(b)
	if err != nil {
		rep.Violate("encode/convert-failed", "FromBuiltinStatefulSet: %v", err)
	}
	got, err := statefulset.VerifGetPatch(as)
	if err != nil {
		rep.Violate("encode/getpatch-failed", "getPatch failed: %v", err)
	}
	if !bytes.Equal(got, want) {
		i := 0
		for i < len(got) && i < len(want) && got[i] == want[i] {
			i++
		}
		lo := i - 60
		if lo < 0 {
			lo = 0
		}
		rep.Violate("encode/revision-data-differs-from-builtin", "revision data differs from what the built-in controller records, first at byte %d:\n advanced: …%.160s\n built-in: …%.160s", i, got[lo:], want[lo:])
	}
	// black box: reconciling the converted set on an empty cluster stores exactly that data under upstream's name
	n, _ := populated(reflect.ValueOf(c.Template), 0)
	rep.FP(string(want))
	if n >= 6 {
		rep.Nontrivial()
		rep.Label("template-with->=6-populated-fields")
	}
	if g := c.Template.Spec.TerminationGracePeriodSeconds; g != nil && *g > 1<<53 {
		rep.Label("int64-above-2^53")
	}
}

func TestC18Enc(t *testing.T)        { checkCases(t, "C18", genC18Enc, runC18Enc) }
func TestRegressC18Enc(t *testing.T) { regress(t, "C18Enc", runC18Enc) }

// ---- (b) end-to-end migration -------------------------------------------------------------------

type C18Case struct {
	Hist      []int `json:"hist"` // template ids of the built-in history, oldest first; last = current template
	CurIdx    int   `json:"cur_idx"`
	Replicas  int32 `json:"replicas"`
	Partition int32 `json:"partition"`
	PodRevs   []int `json:"pod_revs"` // per ordinal: index into Hist of the revision the pod runs
	Rich      bool  `json:"rich"`     // templates carry probes, resources, volumes … (defaults exercised)
	Grace     int64 `json:"grace"`
	Steps     []int `json:"steps"` // 0 reconcile, 1 GC orphans everything, 2 GC orphans one object, 3 kubelet, 4 reconcile with a fault
	FaultAt   int   `json:"fault_at"`
	Parallel  bool  `json:"parallel"`
	// Collision: the built-in set's status.collisionCount at migration time (its revisions were recorded at 0)
	Collision int32 `json:"collision"`
	// DecimalNames: the revisions carry the hash label / name style of old releases (plain decimal)
	DecimalNames bool `json:"decimal_names"`
}

func (c C18Case) Summary() interface{} { return c }

func genC18(rt *rapid.T) C18Case {
	c := C18Case{Replicas: int32(rapid.IntRange(1, 4).Draw(rt, "replicas")), Rich: rapid.Bool().Draw(rt, "rich"), Parallel: rapid.Bool().Draw(rt, "parallel")}
	n := rapid.IntRange(1, 4).Draw(rt, "histLen")
	for i := 0; i < n; i++ {
		c.Hist = append(c.Hist, i)
	}
	c.CurIdx = rapid.IntRange(0, n-1).Draw(rt, "curIdx")
	c.Partition = int32(rapid.IntRange(0, int(c.Replicas)).Draw(rt, "partition"))
	allUpdated := rapid.Bool().Draw(rt, "allUpdated")
	for i := 0; i < int(c.Replicas); i++ {
		if allUpdated {
			c.PodRevs = append(c.PodRevs, n-1)
		} else {
			c.PodRevs = append(c.PodRevs, rapid.IntRange(0, n-1).Draw(rt, "podRev"))
		}
	}
	c.Grace = rapid.SampledFrom([]int64{30, 30, 0, 1<<53 + 1, 3600}).Draw(rt, "grace")
	ns := rapid.IntRange(2, 12).Draw(rt, "nsteps")
	for i := 0; i < ns; i++ {
		c.Steps = append(c.Steps, rapid.SampledFrom([]int{0, 0, 0, 1, 2, 2, 3, 4}).Draw(rt, "step"))
	}
	c.FaultAt = rapid.IntRange(1, 10).Draw(rt, "faultAt")
	c.Collision = rapid.SampledFrom([]int32{0, 0, 1, 2}).Draw(rt, "collision")
	c.DecimalNames = rapid.IntRange(0, 3).Draw(rt, "decimalNames") == 0
	return c
}

func c18Template(id int, rich bool, grace int64) corev1.PodTemplateSpec {
	t := corev1.PodTemplateSpec{ObjectMeta: metav1.ObjectMeta{Labels: map[string]string{"app": "web"}},
		Spec: corev1.PodSpec{Containers: []corev1.Container{{Name: "c", Image: fmt.Sprintf("img:%d", id)}}}}
	g := grace
	t.Spec.TerminationGracePeriodSeconds = &g
	if rich {
		t.Annotations = map[string]string{"a": "b"}
		t.Spec.Containers[0].Ports = []corev1.ContainerPort{{ContainerPort: 80}}
		t.Spec.Containers[0].Env = []corev1.EnvVar{{Name: "POD", ValueFrom: &corev1.EnvVarSource{FieldRef: &corev1.ObjectFieldSelector{FieldPath: "metadata.name"}}}}
		t.Spec.Containers[0].LivenessProbe = &corev1.Probe{ProbeHandler: corev1.ProbeHandler{HTTPGet: &corev1.HTTPGetAction{Path: "/"}}}
		t.Spec.Volumes = []corev1.Volume{{Name: "cfg", VolumeSource: corev1.VolumeSource{ConfigMap: &corev1.ConfigMapVolumeSource{LocalObjectReference: corev1.LocalObjectReference{Name: "cm"}}}}}
		t.Spec.InitContainers = []corev1.Container{{Name: "init", Image: "busybox"}}
	}
	return t
}

func runC18(rep Rep, c C18Case) {
	cl := sim.New()
	defer cl.Close()
	// ---- the built-in world, as kube-controller-manager would have left it
	mk := func(id int) *appsv1.StatefulSet {
		b := c18Builtin(c18Template(id, c.Rich, c.Grace))
		b.Spec.Replicas = &c.Replicas
		p := c.Partition
		b.Spec.UpdateStrategy.RollingUpdate = &appsv1.RollingUpdateStatefulSetStrategy{Partition: &p}
		if c.Parallel {
			b.Spec.PodManagementPolicy = appsv1.ParallelPodManagement
		} else {
			b.Spec.PodManagementPolicy = appsv1.OrderedReadyPodManagement
		}
		// what the API server's defaulting leaves on every stored built-in object
		lim := int32(10)
		b.Spec.RevisionHistoryLimit = &lim
		return b
	}
	n := len(c.Hist)
	cur := mk(c.Hist[n-1])
	stored := cl.Put(cur).(*appsv1.StatefulSet)
	tr := true
	owner := []metav1.OwnerReference{{APIVersion: "apps/v1", Kind: "StatefulSet", Name: "web", UID: stored.UID, Controller: &tr, BlockOwnerDeletion: &tr}}
	revName := make([]string, n)
	zero := int32(0)
	for i, id := range c.Hist {
		data, err := builtinPatch(mk(id))
		if err != nil {
			rep.Exclude("reference encoder failed")
		}
		hash := builtinRevisionHash(data, &zero)
		if c.DecimalNames {
			hf := fnv.New32()
			hf.Write(data)
			hf.Write([]byte("0"))
			hash = fmt.Sprint(hf.Sum32())
		}
		revName[i] = "web-" + hash
		lbl := map[string]string{"app": "web", "controller.kubernetes.io/hash": hash}
		cl.Put(&appsv1.ControllerRevision{ObjectMeta: metav1.ObjectMeta{Name: revName[i], Namespace: NS, Labels: lbl, OwnerReferences: owner},
			Data: runtime.RawExtension{Raw: data}, Revision: int64(i + 1)})
	}
	updateRev := revName[n-1]
	curIdx := c.CurIdx
	allUpdated := true
	for _, pr := range c.PodRevs {
		if pr != n-1 {
			allUpdated = false
		}
	}
	if allUpdated {
		curIdx = n - 1
	}
	st := stored.DeepCopy()
	st.Status = appsv1.StatefulSetStatus{ObservedGeneration: st.Generation, Replicas: c.Replicas, ReadyReplicas: c.Replicas, CurrentRevision: revName[curIdx], UpdateRevision: updateRev, CollisionCount: &c.Collision}
	for _, pr := range c.PodRevs {
		if pr == curIdx {
			st.Status.CurrentReplicas++
		}
		if pr == n-1 {
			st.Status.UpdatedReplicas++
		}
	}
	cl.Put(st)
	podUID := map[string]string{}
	for ord, pr := range c.PodRevs {
		tmpl := mk(c.Hist[pr]).Spec.Template
		name := fmt.Sprintf("web-%d", ord)
		p := &corev1.Pod{ObjectMeta: metav1.ObjectMeta{Name: name, Namespace: NS, OwnerReferences: owner,
			Labels: map[string]string{"app": "web", "controller-revision-hash": revName[pr], "statefulset.kubernetes.io/pod-name": name}},
			Spec: *tmpl.Spec.DeepCopy()}
		p.Spec.Hostname, p.Spec.Subdomain, p.Spec.NodeName = name, "svc", "node"
		p.Status.Phase = corev1.PodRunning
		p.Status.Conditions = []corev1.PodCondition{{Type: corev1.PodReady, Status: corev1.ConditionTrue}}
		podUID[name] = string(cl.Put(p).(*corev1.Pod).UID)
	}
	// ---- migrate with the real helper
	var uerr error
	_, _, panicked, stack := cl.RunLogged(func() {
		b := cl.BuiltinSets()[0]
		_, uerr = helper.Upgrade(context.TODO(), cl.Kube(), cl.PC(), b)
	})
	if panicked != nil || uerr != nil {
		rep.Violate("migrate/upgrade-failed", "helper.Upgrade failed: %v %v\n%s", uerr, panicked, stack)
	}
	key := NS + "/web"
	gcAll := func() {
		for _, p := range cl.Pods() {
			if len(p.OwnerReferences) > 0 && p.OwnerReferences[0].UID == stored.UID {
				p.OwnerReferences = nil
				cl.Put(p)
			}
		}
		for _, r := range cl.Revs() {
			if len(r.OwnerReferences) > 0 && r.OwnerReferences[0].UID == stored.UID {
				r.OwnerReferences = nil
				cl.Put(r)
			}
		}
	}
	gcOne := func(i int) {
		var objs []func()
		for _, p := range cl.Pods() {
			p := p
			if len(p.OwnerReferences) > 0 && p.OwnerReferences[0].UID == stored.UID {
				objs = append(objs, func() { p.OwnerReferences = nil; cl.Put(p) })
			}
		}
		for _, r := range cl.Revs() {
			r := r
			if len(r.OwnerReferences) > 0 && r.OwnerReferences[0].UID == stored.UID {
				objs = append(objs, func() { r.OwnerReferences = nil; cl.Put(r) })
			}
		}
		if len(objs) > 0 {
			objs[i%len(objs)]()
		}
	}
	midRollout := !allUpdated
	judge := func(r *sim.Record, where string) {
		if r.Panic != nil {
			rep.Violate("panic", "%s: reconcile panicked: %v\n%s", where, r.Panic, r.Stack)
		}
		for _, a := range r.Actions {
			if a.Resource == "controllerrevisions" && a.Verb == "create" && a.Err == nil {
				rep.Violate("migrate/new-revision-created", "%s: a reconcile after the migration created revision %s (the built-in one is %s): pods would be restarted\n%s", where, a.Name, updateRev, r.Transcript())
			}
			if a.Resource == "statefulsets" && a.Subresource == "status" && a.Verb == "update" && a.Err == nil {
				if o, ok := a.Obj.(*asv1.StatefulSet); ok && o.Status.UpdateRevision != updateRev {
					rep.Violate("migrate/update-revision-changed", "%s: status.updateRevision became %q, the built-in controller's was %q\n%s", where, o.Status.UpdateRevision, updateRev, r.Transcript())
				}
			}
			if a.Resource == "pods" && a.Verb == "delete" {
				before, _ := a.Before.(*corev1.Pod)
				if allUpdated {
					rep.Violate("migrate/pod-deleted-although-all-up-to-date", "%s: pod %s was deleted although every pod ran the update revision before the migration\n%s", where, a.Name, r.Transcript())
				}
				if before != nil && before.Labels["controller-revision-hash"] == updateRev && podUID[a.Name] == string(before.UID) {
					ord, _ := model.Canonical("web", a.Name)
					if ord < int(c.Replicas) {
						rep.Violate("migrate/up-to-date-pod-deleted", "%s: pod %s runs the update revision and was deleted\n%s", where, a.Name, r.Transcript())
					}
				}
			}
		}
	}
	fullyOrphaned := false
	for i, stp := range c.Steps {
		where := fmt.Sprintf("step %d", i)
		switch stp {
		case 0, 4:
			cl.RefreshAll()
			if stp == 4 {
				k := 0
				cl.Intercept = func(a *sim.Action) *sim.Fault {
					k++
					if k == c.FaultAt && a.IsWrite() {
						return &sim.Fault{Crash: true, Apply: true} // the controller dies right after this write took effect
					}
					return nil
				}
			}
			r := cl.Reconcile(key)
			cl.Intercept = nil
			judge(r, where)
		case 1:
			gcAll()
			fullyOrphaned = true
		case 2:
			gcOne(i)
		case 3:
			for _, p := range cl.PodsIn(NS) {
				if p.DeletionTimestamp != nil {
					cl.Kubelet(NS, p.Name, sim.KFinalize)
				} else {
					cl.Kubelet(NS, p.Name, sim.KReady)
				}
			}
		}
	}
	// closing: GC finishes, then fair rounds; every marked revision must end label-synced and adopted
	gcAll()
	fullyOrphaned = true
	for round := 0; round < 4*int(c.Replicas)+12; round++ {
		cl.RefreshAll()
		r := cl.Reconcile(key)
		judge(r, fmt.Sprintf("closing round %d", round))
		if r.Err != nil && round > 2*int(c.Replicas)+8 {
			rep.Violate("migrate/reconcile-keeps-failing", "closing round %d: reconcile still fails after the migration: %v\n%s", round, r.Err, r.Transcript())
		}
		for _, p := range cl.PodsIn(NS) {
			if p.DeletionTimestamp != nil {
				cl.Kubelet(NS, p.Name, sim.KFinalize)
			} else {
				cl.Kubelet(NS, p.Name, sim.KReady)
			}
		}
	}
	as := cl.Set(NS, "web")
	for _, r := range cl.Revs() {
		if r.Labels["apps.pingcap.com/upgrade-to-asts"] != "web" {
			continue
		}
		if !isControlledBy(r.OwnerReferences, as.UID) {
			rep.Violate("migrate/marked-revision-not-adopted", "revision %s carries the upgrade marker but is not controlled by the Advanced set at the end (owners %v)", r.Name, r.OwnerReferences)
		}
		if r.Labels["app"] != "web" {
			rep.Violate("migrate/marked-revision-not-label-synced", "revision %s carries the upgrade marker but not the selector labels (labels %v)", r.Name, r.Labels)
		}
	}
	if as.Status.UpdateRevision != updateRev {
		rep.Violate("migrate/update-revision-changed", "at the end status.updateRevision is %q, the built-in controller's was %q", as.Status.UpdateRevision, updateRev)
	}
	_ = fullyOrphaned
	rep.FP(worldFPAny(c))
	if len(c.Hist) >= 2 || midRollout {
		rep.Nontrivial()
	}
	if midRollout {
		rep.Label("migration-mid-rollout")
	}
	if c.Grace > 1<<53 {
		rep.Label("int64-above-2^53")
	}
	if c.Collision > 0 || c.DecimalNames {
		rep.Label("hash-label-differs-from-hash-at-current-collision-count")
	}
}

func TestC18(t *testing.T)        { checkCases(t, "C18", genC18, runC18) }
func TestRegressC18(t *testing.T) { regress(t, "C18", runC18) }
