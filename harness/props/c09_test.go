package props

import (
	"encoding/json"
	"fmt"
	"sort"
	"strings"
	"testing"

	apierrors "k8s.io/apimachinery/pkg/api/errors"
	"k8s.io/apimachinery/pkg/api/meta"
	"k8s.io/apimachinery/pkg/runtime"
	"pgregory.net/rapid"

	"verifharness/sim"
)

// C09 — a failure or crash at any API call is reported, harmless and recoverable.
// Fault enumeration: for a generated state, the unfaulted reconcile is run on a clone to learn its
// N API calls; then for (sampled or all) positions x fault kinds a fresh clone is reconciled with
// that fault through a real worker step.

type C09Case struct {
	W World `json:"world"`
	// Positions are draws reduced modulo N at run time (so every one is reachable); All = every position.
	Positions []int `json:"positions"`
	All       bool  `json:"all"`
	// Second fault (pairs): kind and position draw applied to the first reconcile of the recovery; 0 = none
	SecondKind int `json:"second_kind,omitempty"`
	SecondPos  int `json:"second_pos,omitempty"`
	// SecondSame: the second fault hits the same reconcile as the first, 1 + SecondPos%3 calls later (a retry
	// inside the controller that fails again)
	SecondSame bool   `json:"second_same,omitempty"`
	Perm       uint64 `json:"perm,omitempty"`
}

func (c C09Case) Summary() interface{} {
	return map[string]interface{}{"world": summarizeWorld(c.W), "positions": c.Positions, "all_positions": c.All, "second_fault": faultNames[c.SecondKind], "second_pos": c.SecondPos, "second_fault_in_same_reconcile": c.SecondSame}
}

var c09Kinds = []int{FServerError, FTimeoutLost, FTimeoutApplied, FCrashBefore, FCrashAfter, FConflict, FNotFound, FAlreadyExists}

func transient(kind int) bool {
	return kind == FServerError || kind == FTimeoutLost || kind == FTimeoutApplied || kind == FCrashBefore || kind == FCrashAfter
}

func genC09(rt *rapid.T) C09Case {
	o := histOpts
	o.maxOps = 20
	o.constructed = 7
	o.orphanRevs = true
	o.faults = false
	if rapid.IntRange(0, 2).Draw(rt, "noPrefix") == 0 {
		o.maxOps = 0 // the constructed state itself is the state under test
	}
	c := C09Case{W: genWorld(rt, o), All: thorough()}
	if !c.All {
		for i := 0; i < 4; i++ {
			c.Positions = append(c.Positions, rapid.IntRange(0, 999).Draw(rt, "pos"))
		}
	}
	if rapid.IntRange(0, 3).Draw(rt, "pair") == 0 {
		c.SecondKind = rapid.SampledFrom(c09Kinds).Draw(rt, "secondKind")
		c.SecondPos = rapid.IntRange(0, 999).Draw(rt, "secondPos")
		c.SecondSame = rapid.IntRange(0, 2).Draw(rt, "secondSame") == 0
	}
	if rapid.Bool().Draw(rt, "permute") {
		c.Perm = uint64(rapid.IntRange(1, 1<<16).Draw(rt, "perm"))
	}
	return c
}

// canon renders the API state with resource versions removed.
func canon(c *sim.Cluster) string {
	var objs []runtime.Object
	for _, o := range c.Sets() {
		objs = append(objs, o)
	}
	for _, o := range c.Pods() {
		objs = append(objs, o)
	}
	for _, o := range c.Revs() {
		objs = append(objs, o)
	}
	for _, o := range c.PVCs() {
		objs = append(objs, o)
	}
	var b strings.Builder
	for _, o := range objs {
		m, _ := meta.Accessor(o)
		m.SetResourceVersion("")
		j, _ := json.Marshal(o)
		fmt.Fprintf(&b, "%T %s\n", o, j)
	}
	return b.String()
}

func firstDiff(a, b string) string {
	la, lb := strings.Split(a, "\n"), strings.Split(b, "\n")
	for i := 0; i < len(la) || i < len(lb); i++ {
		var x, y string
		if i < len(la) {
			x = la[i]
		}
		if i < len(lb) {
			y = lb[i]
		}
		if x != y {
			return fmt.Sprintf("unfaulted: %.600s\nfaulted:   %.600s", x, y)
		}
	}
	return ""
}

// weakProjection: what the spec alone determines (used when an interference fault really changed the world).
// Claims are not part of it: which ordinals ever had a pod created by the controller - and therefore a claim -
// depends on the history, and an interference (somebody really deleted an orphan the twin adopted) changes it.
func weakProjection(s *Sys) string {
	return fmt.Sprintf("%v", project(s))
}

func fullProjection(s *Sys) string {
	p := project(s)
	var claims []string
	for _, c := range s.C.PVCs() {
		claims = append(claims, c.Name)
	}
	sort.Strings(claims)
	owners := []string{}
	set := s.Set()
	for _, pod := range s.C.PodsIn(NS) {
		owners = append(owners, fmt.Sprintf("%s:%v", pod.Name, set != nil && isControlledBy(pod.OwnerReferences, set.UID)))
	}
	// a run that differs from its twin by one fault only must also agree on what is history-dependent in
	// general: the revision of every pod (also below the partition) and the current/update revisions
	var revs []string
	for _, pod := range s.C.PodsIn(NS) {
		revs = append(revs, pod.Name+"@"+pod.Spec.Containers[0].Image)
	}
	cur, upd := "", ""
	if set != nil {
		if r := s.C.Rev(NS, set.Status.CurrentRevision); r != nil {
			cur = revImage(r)
		}
		if r := s.C.Rev(NS, set.Status.UpdateRevision); r != nil {
			upd = revImage(r)
		}
	}
	// ... and on the stored revisions: which exist, who controls them, and whether they carry the selector labels
	// (a revision that was adopted but whose labels were never restored is invisible to the next label query)
	var stored []string
	for _, r := range s.C.Revs() {
		sel := set != nil && set.Spec.Selector != nil && len(set.Spec.Selector.MatchLabels) > 0
		if sel {
			for k, v := range set.Spec.Selector.MatchLabels {
				if r.Labels[k] != v {
					sel = false
				}
			}
		}
		_, marked := r.Labels["apps.pingcap.com/upgrade-to-asts"]
		own := "none"
		if c := controllerOf(r.OwnerReferences); c != nil {
			own = "other"
			if set != nil && c.UID == set.UID {
				own = "set"
			}
		}
		stored = append(stored, fmt.Sprintf("%s[%s owner=%s selectorLabels=%v marker=%v]", r.Name, revImage(r), own, sel, marked))
	}
	return fmt.Sprintf("%v claims=%v owned=%v podTemplates=%v currentTemplate=%s updateTemplate=%s revisions=%v", p, claims, owners, revs, cur, upd, stored)
}

// safetyMonitors runs the per-reconcile safety rules of C03, C04, C05, C07, C10 and C12 (bounds).
func safetyMonitors(rep Rep, r *sim.Record) {
	if r.Panic != nil {
		rep.Violate("panic", "reconcile panicked: %v\n%s", r.Panic, r.Stack)
	}
	v := NewView(r)
	if v == nil {
		return
	}
	monC03(rep, v)
	monC04(rep, v)
	monC05(rep, v)
	monC07(rep, v)
	monC12(rep, v)
	monC10(rep, v, nil)
}

func runC09(rep Rep, c C09Case) {
	rep.SkipOuter()
	w := c.W
	base := BuildWorld(rep, &w)
	defer base.Close()
	for i := range w.Ops {
		base.Run(&w.Ops[i])
	}
	if set := base.Set(); set == nil || set.DeletionTimestamp != nil {
		rep.Exclude("state without a live set")
	}
	base.C.RefreshAll()
	wfp := worldFP(w)

	// unfaulted twin: learn the calls, the resulting state and the final projection
	twin := base.cloneSys()
	defer twin.Close()
	r0 := twin.Reconcile(&Op{K: OpReconcile, Refresh: 1, Perm: c.Perm, Worker: true})
	if r0.Panic != nil {
		rep.Violate("panic", "unfaulted reconcile panicked: %v\n%s", r0.Panic, r0.Stack)
	}
	N := len(r0.Actions)
	if N == 0 {
		rep.Exclude("reconcile makes no API call")
	}
	if r0.Err != nil && r0.Requeues == 0 {
		rep.Violate("requeue/error-not-requeued", "the reconcile failed (%v) but the key's requeue counter is 0\n%s", r0.Err, r0.Transcript())
	}
	if r0.Err == nil && r0.Requeues != 0 {
		rep.Violate("requeue/success-not-forgotten", "the reconcile succeeded but the key's requeue counter is %d", r0.Requeues)
	}
	U := canon(twin.C)
	firstWrite, writes := N+1, 0
	for i, a := range r0.Actions {
		if a.IsWrite() {
			writes++
			if i+1 < firstWrite {
				firstWrite = i + 1
			}
		}
	}
	twinOK := closeAndCheck(rep, twin)
	twinProj := fullProjection(twin)
	twinWeak := weakProjection(twin)

	var positions []int
	if c.All {
		for k := 1; k <= N; k++ {
			positions = append(positions, k)
		}
	} else {
		seen := map[int]bool{}
		for _, p := range c.Positions {
			k := 1 + p%N
			if !seen[k] {
				seen[k] = true
				positions = append(positions, k)
			}
		}
		// the sampled tier always adds the pod creates / deletes of the reconcile (at most 3): the calls after
		// which partial work is most consequential
		extra := 0
		for i, a := range r0.Actions {
			if a.Resource == "pods" && (a.Verb == "create" || a.Verb == "delete") && !seen[i+1] && extra < 3 {
				seen[i+1] = true
				positions = append(positions, i+1)
				extra++
			}
		}
		// … and the first uncached read of the set (the confirmation before an adoption)
		for i, a := range r0.Actions {
			if a.Resource == "statefulsets" && a.Verb == "get" && !seen[i+1] {
				seen[i+1] = true
				positions = append(positions, i+1)
				break
			}
		}
	}
	for _, k := range positions {
		for _, kind := range c09Kinds {
			f := base.cloneSys()
			func() {
				defer f.Close()
				f.OnRecord = func(r *sim.Record, op *Op) { safetyMonitors(rep, r) }
				op := &Op{K: OpReconcile, Refresh: 1, Perm: c.Perm, FaultAt: k, Fault: kind, Worker: true}
				bothTransient := transient(kind)
				if c.SecondKind != 0 && c.SecondSame {
					op.Fault2, op.Fault2Off = c.SecondKind, 1+c.SecondPos%3
					bothTransient = bothTransient && transient(c.SecondKind)
				}
				// the same faulted reconcile on a second clone, called directly: its return value tells
				// whether the reconcile failed, independently of what the worker logs
				var syncErr error
				{
					g := base.cloneSys()
					direct := *op
					direct.Worker = false
					syncErr = g.Reconcile(&direct).Err
					g.Close()
				}
				r := f.Reconcile(op)
				if !r.Crashed && syncErr != nil && r.Requeues == 0 {
					rep.Violate("requeue/error-not-requeued", "fault %s at call %d of %d (%s): the reconcile returns an error (%v) but the worker left the key's requeue counter at 0\n%s",
						faultNames[kind], k, N, r0.Actions[k-1], syncErr, f.Transcript())
				}
				target := r0.Actions[k-1]
				nontrivial := k >= firstWrite && writes >= 2
				rep.Sub(fmt.Sprintf("%s|%d|%d|%d|%d|%v", wfp, k, kind, c.SecondKind, c.SecondPos, c.SecondSame), nontrivial)
				if f.Fault2Hit {
					rep.Label("second-fault-in-same-reconcile-hit")
				}
				rep.Label("fault:" + faultNames[kind])
				rep.Label("target:" + target.Verb + " " + target.Resource)
				desc := fmt.Sprintf("fault %s at call %d of %d (%s)", faultNames[kind], k, N, target)
				if r.Crashed {
					f.C.Restart()
					f.C.RefreshAll()
				} else {
					if r.Err != nil && r.Requeues == 0 {
						rep.Violate("requeue/error-not-requeued", "%s: the reconcile failed (%v) but the key's requeue counter is 0\n%s", desc, r.Err, f.Transcript())
					}
					if r.Err != nil && !r.ReAdded {
						rep.Violate("requeue/key-not-re-added", "%s: the reconcile failed but the key did not come back into the queue\n%s", desc, f.Transcript())
					}
					if r.Err == nil && r.Requeues != 0 {
						rep.Violate("requeue/success-not-forgotten", "%s: the reconcile succeeded but the requeue counter is %d\n%s", desc, r.Requeues, f.Transcript())
					}
					if bothTransient && r.Err == nil {
						// the failed call was swallowed: then nothing may have been skipped
						if F := canon(f.C); F != U {
							rep.Violate("swallowed/"+target.Verb+"-"+target.Resource, "%s: the reconcile reported success although a call failed, and the state differs from the unfaulted run:\n%s\n%s",
								desc, firstDiff(U, F), f.Transcript())
						}
					}
				}
				if !r.Crashed && !transient(kind) && syncErr == nil && k-1 < len(r.Actions) && !f.Fault2Hit {
					// an interference made this call fail for real (the object was gone / already there / modified).
					// Answering that with success is acceptable only where the design tolerates it: adopting or
					// releasing a pod that vanished, creating a revision that already exists with the same data,
					// and updates that are retried on conflict.
					if a := r.Actions[k-1]; a.Err != nil {
						reason := string(apierrors.ReasonForError(a.Err))
						tolerated := (a.Resource == "pods" && a.Verb == "patch" && (apierrors.IsNotFound(a.Err) || apierrors.IsInvalid(a.Err))) ||
							(a.Resource == "controllerrevisions" && a.Verb == "create" && apierrors.IsAlreadyExists(a.Err)) ||
							(a.Verb == "update" && apierrors.IsConflict(a.Err))
						if !tolerated {
							rep.Violate("swallowed-interference/"+a.Verb+"-"+a.Resource+"-"+reason, "%s: the call failed (%v) and the reconcile reported success\n%s", desc, a.Err, f.Transcript())
						}
					}
				}
				if c.SecondKind != 0 && !c.SecondSame {
					f.Reconcile(&Op{K: OpReconcile, FaultAt: 1 + c.SecondPos%N, Fault: c.SecondKind})
					if last := f.Reconciles; last > 0 && f.C.Set(NS, f.Name) != nil {
						// a crash in the second faulted reconcile restarts the controller as well
					}
					f.C.Restart()
					f.C.RefreshAll()
				}
				if f.Set() == nil {
					return // an interference fault removed the set itself: nothing to recover to
				}
				ok := closeAndCheck(rep, f)
				if ok && twinOK {
					// transient faults leave the world as it was: the recovered run must agree with its twin also on
					// what is history-dependent in general (revision of every pod, current revision). An interference
					// fault (a concurrent delete / create / write really happened) changes the history itself, so only
					// what the spec determines is compared.
					proj, want := fullProjection, twinProj
					if !transient(kind) || (c.SecondKind != 0 && !transient(c.SecondKind)) {
						proj, want = weakProjection, twinWeak
					}
					if p := proj(f); p != want {
						twinProj := want
						rep.Violate("recovery/final-state-differs", "%s: after recovery the system converged to\n  %s\nthe run without failures to\n  %s\n%s", desc, p, twinProj, f.Transcript())
					}
				}
			}()
		}
	}
}

func TestC09(t *testing.T)        { checkCases(t, "C09", genC09, runC09) }
func TestRegressC09(t *testing.T) { regress(t, "C09", runC09) }
