# Human-written parts of MANIFEST.json, per property.
HOOK_COMMITS = ["f709daf"]

ALL = ["C%02d" % i for i in range(1, 21)]

META = {
    "C01": {
        "text": "Random (up to 1.6 M cases) and, in the thorough tier, exhaustive (r in 0..6 x all subsets of {-2..8}) comparison of every "
                "ordinal helper and of the real controller's pod creations on an empty simulated cluster against an independent greedy "
                "reference model. Exploration is the right level: the input space is small-alphabet and the oracle is exact.",
        "design_ref": "DESIGN.md section 3, C01",
        "note": "Holds for the generated annotations (grammar incl. malformed strings and random bytes up to 12 bytes, r <= 12); the "
                "controller part trusts the simulated API server (DESIGN section 2.3).",
        "technique": "property-based testing (rapid) against a reference model; exhaustive enumeration of a small box",
    },
}

_pending = "check not built yet in this round of the build; planned per DESIGN.md section 3 (generated-input search applies)"
NOT_APPLICABLE = [{"property_id": p, "reason": _pending} for p in ALL if p not in META]
