# Human-written parts of MANIFEST.json, per property.
HOOK_COMMITS = ["f709daf", "0bf9109", "e0bcac3"]

ALL = ["C%02d" % i for i in range(1, 21)]

META = {
    "C01": {
        "text": "Random (up to 1.6 M cases) and, in the thorough tier, exhaustive (r in 0..6 x all subsets of {-2..8}) comparison of every "
                "ordinal helper and of the real controller's pod creations on an empty simulated cluster against an independent greedy "
                "reference model and the harness' own strict reading of the annotation value. Exploration is the right level: the input space is small-alphabet and the oracle is exact.",
        "design_ref": "DESIGN.md section 3, C01",
        "note": "Holds for the generated annotations (grammar incl. malformed strings and random bytes up to 12 bytes, r <= 12); the "
                "controller part trusts the simulated API server (DESIGN section 2.3).",
        "technique": "property-based testing (rapid) against a reference model; exhaustive enumeration of a small box",
    },
    "C03": {
        "text": "Every pod delete issued in every reconcile of thousands of generated histories (stale caches, permuted cache order, injected API "
                "faults, mid-reconcile interference) is classified against the snapshot that reconcile saw by an independent membership / "
                "desired-ordinal / revision model; a metamorphic scenario checks that scale-in at slot k deletes exactly pod k and restarts nothing else.",
        "design_ref": "DESIGN.md section 3, C03",
        "note": "Bounded: ordinals 0..8, replicas <= 5, histories <= 40 ops; up-to-dateness is decided by the harness's own decode of the stored revision data.",
        "technique": "stateful property-based testing (rapid) with per-reconcile invariant monitor + metamorphic relation",
    },
    "C04": {
        "text": "Every pod create of every reconcile of generated histories must name a desired, vacant ordinal of the snapshot and never happen for a deleting set.",
        "design_ref": "DESIGN.md section 3, C04",
        "note": "Same bounds as C03; a create that hits a non-member squatter is not generated here (C10 covers foreign pods).",
        "technique": "stateful property-based testing (rapid) with per-reconcile invariant monitor",
    },
    "C05": {
        "text": "For OrderedReady sets, the create/delete calls of each reconcile are checked against the snapshot: one ordinal at most, healthy predecessors, scale-in from the top, update only when nothing is condemned and all desired pods are healthy.",
        "design_ref": "DESIGN.md section 3, C05",
        "note": "Same bounds as C03.",
        "technique": "stateful property-based testing (rapid) with per-reconcile invariant monitor",
    },
    "C07": {
        "text": "Update deletes and created pods of every reconcile are checked against partition, strategy and the revision each ordinal calls for, over histories with several template revisions in flight.",
        "design_ref": "DESIGN.md section 3, C07",
        "note": "Same bounds as C03; with a nil rollingUpdate block only the delete clauses are asserted (partition 0), the created-revision clause is skipped (upstream's implicit partition).",
        "technique": "stateful property-based testing (rapid) with per-reconcile invariant monitor",
    },
    "C14": {
        "text": "For Parallel sets every error-free reconcile must create all vacant desired ordinals and delete all live condemned pods of its snapshot, whatever the health of the other pods.",
        "design_ref": "DESIGN.md section 3, C14",
        "note": "Same bounds as C03.",
        "technique": "stateful property-based testing (rapid) with per-reconcile invariant monitor",
    },
    "C15": {
        "text": "Random and coverage-guided generation of CRD-admitted objects, pod populations and ControllerRevisions (incl. hostile revision data), each "
                "reconciled several times with kubelet progress in between; any panic is reported with the first repo frame as signature. Found and "
                "repaired four distinct crashes; exploration is the right level because the crash sites are data-dependent and shallow once the input "
                "shape is generated.",
        "design_ref": "DESIGN.md section 3, C15",
        "note": "Domain = what the shipped CRD schema enforces (DESIGN section 3 C15); replicas <= 8; the decode step JSON -> Go types is assumed (objects are generated as Go values).",
        "technique": "property-based testing (rapid) + native go fuzzing via rapid.MakeFuzz; crash oracle",
    },
    "C02": {
        "text": "Bounded liveness as a generated search: from constructed cluster states and random prefixes, a fair deterministic closing schedule must "
                "reach a fixed point (cycle detection distinguishes livelock from slowness) at which the pods, their revisions, the status and the "
                "absence of further writes are checked against the reference model.",
        "design_ref": "DESIGN.md section 3, C02",
        "note": "'Eventually' is decided under one fair schedule family with a round bound; adversarial-but-fair schedules outside it are not explored. Non-member squatters and non-canonical pod names are outside the generated domain.",
        "technique": "stateful property-based testing (rapid): random prefix + fair closing schedule with cycle detection; fixed-point oracle from a reference model",
    },
    "C12": {
        "text": "Every status write of every reconcile over legitimately reached states is checked for bounds, generation monotonicity and the "
                "rollout-completion rule; the closing schedule adds the exact-census check at the fixed point. Found and repaired a negative currentReplicas.",
        "design_ref": "DESIGN.md section 3, C12",
        "note": "Reachable = produced by the harness's legitimate transitions only (no constructed pods); same bounds as C03.",
        "technique": "stateful property-based testing (rapid) with per-write invariant monitor + fixed-point census",
    },
    "C10": {
        "text": "Every write of every reconcile over populations that cross all owner / label / name / terminating combinations (pods and revisions, incl. a "
                "second set with an overlapping selector and a same-named set in another namespace - both reconciled by the same controller -, a stale cached set, "
                "and a set re-created under its name with another selector) is classified against the snapshot; cache objects are compared with "
                "deep copies taken before the reconcile. Found and repaired the missing owner filter on revisions.",
        "design_ref": "DESIGN.md section 3, C10",
        "note": "See assumptions in the evidence file: marker revisions, non-canonical pod names and identical-data name collisions are not judged.",
        "technique": "stateful property-based testing (rapid) with per-reconcile write classification against a membership model",
    },
    "C11": {
        "text": "The flag (deletion timestamp or pause) is raised at a generated point of a generated history - mid scale-in, mid rolling update, with orphans "
                "waiting - and every later reconcile that sees it is checked for forbidden writes; for pauses a cloned never-paused twin run gives the "
                "reference result that the resumed run must converge to.",
        "design_ref": "DESIGN.md section 3, C11",
        "note": "Resume equivalence is compared on the spec-determined projection only (revisions of pods below the partition and currentRevision are history-dependent by design).",
        "technique": "stateful property-based testing (rapid): write monitor + differential twin run (paused vs never paused)",
    },
    "C13": {
        "text": "Revision deletions of every reconcile over generated revision populations (own, orphan, adopted-after-upgrade, foreign) are compared with a "
                "reference model of 'the oldest unused own revisions beyond the limit'. Found and repaired trimming of revisions the set does not control "
                "(and, through C02, the double listing).",
        "design_ref": "DESIGN.md section 3, C13",
        "note": "Exact equality of the deleted set is asserted for fault-free reconciles; with faults only 'never more than expected, never a live or foreign one'.",
        "technique": "property-based testing (rapid) against a reference model of history trimming",
    },
    "C09": {
        "text": "Fault enumeration on generated states: every API call position of the reconcile (sampled in the quick tier, all in the thorough tier) x eight "
                "fault kinds incl. crash before/after the call, singly and in pairs, each executed through a real worker step and followed by recovery to "
                "a fixed point that is compared with the unfaulted twin.",
        "design_ref": "DESIGN.md section 3, C09",
        "note": "Positions are complete per state in the thorough tier; states themselves are sampled. Interference kinds really change the API state first, so only responses a real API server could give are injected.",
        "technique": "fault injection enumerated over API-call positions of generated states (rapid), differential against an unfaulted twin",
    },
    "C16": {
        "text": "Generated event sequences are delivered through the handlers captured from the real constructor and the resulting queue content is "
                "bracketed by a reference model of who must and who may be enqueued; real worker steps with generated outcomes check the "
                "AddRateLimited / Forget bookkeeping.",
        "design_ref": "DESIGN.md section 3, C16",
        "note": "Informer machinery itself (delivery, resync) is client-go's and trusted; events are synthesised by the harness.",
        "technique": "property-based testing (rapid) of event handlers against a required/allowed-set model",
    },
    "C20": {
        "text": "Generated interleavings of source sends (all five event types incl. Error with a Status payload), consumer receives, repeated Stops and source "
                "close against the real hijack watch; the oracle is prefix equality of the relayed events plus clean shutdown (channel closed, no parked "
                "relay goroutine). Found and repaired the panic on Error events and the relay blocked in send after Stop.",
        "design_ref": "DESIGN.md section 3, C20",
        "note": "The harness owns schedule granularity at the level of channel operations it performs itself; interleavings inside the relay goroutine are the Go scheduler's.",
        "technique": "property-based testing (rapid) over schedules with a prefix/shutdown oracle; thorough tier repeats it under the Go race detector",
    },
    "C19": {
        "text": "Round-trip and idempotence properties over reflectively generated objects of the whole modelled schema, plus the annotation codecs over all of "
                "int32 and arbitrary annotation maps, plus a coverage-guided fuzz leg over raw JSON. Exploration suits it: the oracles (identity, "
                "idempotence, union) are exact and the interesting inputs are shapes (nil vs empty, present vs absent).",
        "design_ref": "DESIGN.md section 3, C19",
        "note": "Only JSON-representable values are generated; see assumptions.",
        "technique": "round-trip / idempotence property-based testing (rapid reflection generator) + native go fuzzing of JSON input",
    },
    "C06": {
        "text": "The ordered write log of the real pod control on the recording API is checked per pod create for identity, storage wiring and 'claims first', "
                "with single claim failures injected at claim creations and claim cache lookups, over scale-in/scale-out cycles of the same ordinal.",
        "design_ref": "DESIGN.md section 3, C06",
        "note": "Claim creation order inside one pod (Go map order in the code) is not controlled by the harness; the oracle is order-insensitive.",
        "technique": "stateful property-based testing (rapid) with injected claim faults and a write-log invariant",
    },
    "C08": {
        "text": "Histories of template edits, rollbacks and non-template edits over reflectively generated pod templates, with engineered name collisions "
                "learnt from a dry run, checked after every reconcile against the harness's own decoding of the stored revision data.",
        "design_ref": "DESIGN.md section 3, C08",
        "note": "Equality is Semantic.DeepEqual on the decoded template; the engineered collision uses the controller's own naming via a cloned dry run.",
        "technique": "property-based testing (rapid, reflection generator) with round-trip and metamorphic (non-template edit) oracles",
    },
    "C17": {
        "text": "Fault enumeration over the real helper.Upgrade on the recording API: every call position (all of them in the thorough tier) x seven fault kinds "
                "incl. crashes and real concurrent modifications, with 1-3 faulted attempts of a retrying caller; safety is judged at the instant of the "
                "delete call and the outcome against an uninterrupted twin.",
        "design_ref": "DESIGN.md section 3, C17",
        "note": "Garbage collection and the still-running built-in controller are not simulated beyond the injected conflicts.",
        "technique": "fault injection enumerated over API-call positions of generated worlds (rapid), differential against an uninterrupted twin",
    },
    "C18": {
        "text": "A differential check of the revision encoder against an independent re-implementation of the built-in controller's, over the whole pod "
                "template schema, plus end-to-end migrations (real Upgrade helper, garbage-collector orphaning in any order, crashes) judged on "
                "'no new revision, same update revision, no up-to-date pod deleted, marked revisions adopted'.",
        "design_ref": "DESIGN.md section 3, C18",
        "note": "Byte equality is differential, so the 2^53 caveat of getPatch does not restrict the domain here.",
        "technique": "differential property-based testing (rapid reflection generator) + stateful migration scenarios",
    },
}

_pending = "check not built yet in this round of the build; planned per DESIGN.md section 3 (generated-input search applies)"
NOT_APPLICABLE = [{"property_id": p, "reason": _pending} for p in ALL if p not in META]  # empty once all are built
