#!/bin/sh
# Offline setup: warm the Go build cache by compiling the property test binary once.
set -e
cd "$(dirname "$0")/harness"
export GOFLAGS=-mod=mod GOPROXY=off GOSUMDB=off GOTOOLCHAIN=local
[ -f go.sum ] || cp /repo/go.sum go.sum
mkdir -p ../.build
go test -c -tags verif -vet=off -o ../.build/setup.test ./props
rm -f ../.build/setup.test
echo "setup ok"
