#!/bin/sh
# Offline setup: warm the Go build cache by compiling the property test binary once.
set -e
cd "$(dirname "$0")/harness"
export GOFLAGS=-mod=mod GOPROXY=off GOSUMDB=off GOTOOLCHAIN=local
[ -f go.sum ] || cp /repo/go.sum go.sum
mkdir -p ../.build
go test -c -tags verif -vet=off -o ../.build/setup.test ./props
rm -f ../.build/setup.test
# the simulated API server is pinned down by its own unit checks (DESIGN.md section 2.3)
go test -tags verif -vet=off -count=1 ./sim
echo "setup ok"
