#!/usr/bin/env python3
"""Regenerates MANIFEST.json from checks_config.py and manifest_meta.py (so the two never drift)."""
import json, os, subprocess, sys
ROOT = os.path.dirname(os.path.abspath(__file__))
sys.path.insert(0, ROOT)
from checks_config import CHECKS
from manifest_meta import META, NOT_APPLICABLE, HOOK_COMMITS

checks = []
for pid in sorted(CHECKS):
    cfg, m = CHECKS[pid], META[pid]
    checks.append({
        "property_id": pid,
        "quick_cmd": "./check %s --tier quick" % pid,
        "thorough_cmd": "./check %s --tier thorough" % pid,
        "evidence_file": "/verif/evidence/%s.json" % pid,
        "replay_cmd_template": "./check %s --replay {path}" % pid,
        "engine": "rapid-harness",
        "level_claimed": {"category": cfg["level"], "text": m["text"], "design_ref": m["design_ref"]},
        "level_note": m["note"],
        "technique": m["technique"],
    })
manifest = {
    "version": 1,
    "setup_cmd": "./setup.sh",
    "hooks": {
        "guard": "verif",
        "enable": "go build tag: go test -tags verif (the harness module /verif/harness replaces the two repo modules with /repo and /repo/client)",
        "baseline_off_cmd": "cd /repo && GOFLAGS=-mod=mod GOPROXY=off GOSUMDB=off go test -json -vet=off -count=1 -timeout 25m ./... ; cd /repo/client && GOFLAGS=-mod=mod GOPROXY=off GOSUMDB=off go test -json -vet=off -count=1 -timeout 25m ./...",
        "source_commits": HOOK_COMMITS,
        "add_only": True,
    },
    "engines": [{
        "name": "rapid-harness",
        "path": "/verif/harness",
        "serves_properties": sorted(CHECKS),
        "kind_free_text": "Go module with pgregory.net/rapid v1.3.0 property tests (plus native go fuzz targets) driving the real controller / helpers on a simulated cluster; python driver ./check shards, classifies, writes evidence",
    }],
    "checks": checks,
    "not_applicable": NOT_APPLICABLE,
    "notes": "All checks rebuild the test binary from /repo's working tree on every invocation. Known findings: /verif/known_findings.json.",
}
json.dump(manifest, open(os.path.join(ROOT, "MANIFEST.json"), "w"), indent=1)
print("wrote MANIFEST.json with", len(checks), "checks")
